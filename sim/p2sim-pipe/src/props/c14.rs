//! C14 — Every pipeline submission completes with its own result.
//!
//! DES engine, no SQLite, no foreign thread. Real: `Pipeline::process` (through the cfg-guarded
//! `Pipeline::from_parts`, hook H2), `TaskTracker::{track, mark_as_done}`, `Task::{ready,
//! mark_as_done}`. Stub: the worker task `recv -> simulated delay -> tasks.mark_as_done(hash, event)`
//! which stands in for ingest + prune on the pipeline's own OS thread.
//!
//! The pipeline thread of `Pipeline::new` runs truly in parallel to the submitting tasks, so it may
//! run `mark_as_done` between any two statements of `Task::ready`. The one place where that matters
//! has no `.await`; hook H1 puts `verif::yield_point("task.ready.between_check_and_wait")` there.
//! The handler installed by this check decides from the choice stream whether the submitter is
//! suspended at that point (a seeded simulated duration, or one scheduler yield), which lets the
//! simulated worker run inside the window exactly as the real thread could.

use std::cell::Cell;
use std::collections::BTreeMap;
use std::future::Future;
use std::pin::Pin;
use std::sync::{Arc, Mutex};
use std::task::{Context, Poll};
use std::time::Duration;

use p2panda_core::traits::Digest;
use p2panda_core::{Hash, Topic};
use simcore::{Budget, Property, Tier, ctx, des, ev, violation};
use simworld::logworld::{key_bytes, signing_key};

use super::nodeops::{NodeEvent, NodePipeline, NodeTasks, event_for, make_op, short};

const SITE: &str = "task.ready.between_check_and_wait";
/// Optional hook H1b: scheduling points between the three steps of `Pipeline::process`.
const SITE_TRACK_SEND: &str = "pipeline.process.between_track_and_send";
const SITE_SEND_READY: &str = "pipeline.process.between_send_and_ready";

/// Simulated seconds after which one `process()` call counts as "never returns".
const CALL_TIMEOUT_S: u64 = 300;

const SITE_LOST_WAKEUP: &str = "Task::ready: mark_as_done ran between the result check and notified() (lost wake-up)";
const SITE_PREEMPTED_NOT_HIT: &str = "Task::ready: preempted at the yield point, mark_as_done ran outside the window";
const SITE_NO_PREEMPTION: &str = "Pipeline::process: no preemption fired";
const SITE_PROCESS_PREEMPTED: &str = "Pipeline::process: preempted between track, send and ready";

thread_local! {
    /// Submitter whose future is being polled right now (`usize::MAX` = none / the worker).
    static CURRENT: Cell<usize> = const { Cell::new(usize::MAX) };
}

/// Marks every poll of the wrapped future with the submitter's index, so that the yield handler
/// (which only gets the site name) knows who reached the site.
struct Tagged<F> {
    id: usize,
    inner: Pin<Box<F>>,
}

impl<F: Future> Future for Tagged<F> {
    type Output = F::Output;
    fn poll(mut self: Pin<&mut Self>, cx: &mut Context<'_>) -> Poll<F::Output> {
        let prev = CURRENT.with(|c| c.replace(self.id));
        let r = self.inner.as_mut().poll(cx);
        CURRENT.with(|c| c.set(prev));
        r
    }
}

#[derive(Default)]
struct Shared {
    /// Per submitter: (index of its submission, operation id) of the `process()` call in flight.
    in_flight: Vec<Option<(usize, Hash)>>,
    /// Per submitter: suspended at the H1 site right now, waiting for this operation.
    window: Vec<Option<Hash>>,
    /// Per submitter, for the call in flight: a preemption fired at the H1 site.
    preempted: Vec<bool>,
    /// Per submitter, for the call in flight: `mark_as_done` for its operation completed while the
    /// submitter sat in the window.
    hit: Vec<bool>,
    /// Per submitter, for the call in flight: a preemption fired between the steps of `process`.
    preempted_process: Vec<bool>,
    labels: BTreeMap<Hash, String>,
    /// Per submitter: how often it reached the H1 site (i.e. did not find the result at the check).
    site_visits: Vec<u64>,
}

struct WindowGuard {
    shared: Arc<Mutex<Shared>>,
    s: usize,
}

impl Drop for WindowGuard {
    fn drop(&mut self) {
        self.shared.lock().unwrap().window[self.s] = None;
    }
}

pub struct C14Prop;
pub static C14: C14Prop = C14Prop;

impl Property for C14Prop {
    fn id(&self) -> &'static str {
        "C14"
    }
    fn budget(&self, tier: Tier) -> Budget {
        match tier {
            Tier::Quick => Budget { runs: 60_000, wall_cap_s: 35 },
            Tier::Thorough => Budget { runs: 1_000_000, wall_cap_s: 330 },
        }
    }
    fn modes(&self) -> u32 {
        4
    }
    fn mode_name(&self, mode: u32) -> &'static str {
        match mode {
            0 => "no preemption inside Task::ready (fault-free)",
            1 => "pipeline thread preempts submitters at the H1 yield point inside Task::ready",
            3 => "as mode 2, submitters additionally run with a starved tokio coop budget: every acquisition of a tokio primitive inside TaskTracker / Task is a scheduling point",
            _ => "preemption at the H1 yield point and between track / send / ready inside Pipeline::process (H1b)",
        }
    }
    fn rule(&self) -> &'static str {
        "one run = 2-6 submitter tasks x 1-5 Pipeline::process calls each (seeded submit gaps; a submission reuses an operation another submission also uses with probability 1/3, so the tracker deduplicates concurrent submissions), one simulated worker (recv, seeded delay, TaskTracker::mark_as_done), channel capacity 128/1/2/8, seeded task deferral; the faulty modes suspend a submitter at the yield point between the result check and notified() in Task::ready (mode 1) and additionally between track / send / ready inside Pipeline::process (mode 2) with a per-run rate of 1/8..8/8 for one scheduler yield or 1..20 ms simulated; every call must return within 300 simulated seconds with the event of its own operation; non-trivial = every run (at least 2 submitters); distinct = distinct trace fingerprint (plan, schedule, preemptions, completion order)"
    }
    fn components_real(&self) -> Vec<&'static str> {
        vec!["p2panda::processor Pipeline::process (via Pipeline::from_parts, hook H2)", "TaskTracker::track / TaskTracker::mark_as_done", "Task::ready / Task::mark_as_done (tokio Mutex + Notify::notify_waiters)", "tokio mpsc channel between submitters and worker", "Event::new / Event::hash (Node extensions)"]
    }
    fn components_stub(&self) -> Vec<&'static str> {
        vec!["pipeline thread: one simulated worker task (recv -> seeded delay -> tasks.mark_as_done(hash, event)) stands in for Ingest + LogPrune on the thread of Pipeline::new", "OS preemption of a submitter by that thread: yield points H1 / H1b driven by the choice stream"]
    }
    fn assumptions(&self) -> Vec<&'static str> {
        vec!["interleavings with the pipeline thread are explored at the yield points of hooks H1 (inside Task::ready, between result check and wait registration) and H1b (between track, send and ready inside Pipeline::process) and at the existing .await points that really suspend; the bodies of TaskTracker::track / mark_as_done are atomic (they hold the tracker's write lock)"]
    }
    fn expected_probes(&self) -> Vec<&'static str> {
        vec!["mark_as_done_inside_ready_window", "same_operation_in_flight_twice", "preempted_but_completed", "result_already_there_at_check", "preempted_between_track_and_send", "preempted_between_send_and_ready"]
    }

    fn run(&self) {
        let preempting = ctx::mode() >= 1;
        let all_sites = ctx::mode() >= 2;
        let starved = ctx::mode() == 3;
        ctx::mark_nontrivial();

        // ---- workload ----------------------------------------------------------------------
        let n_sub = ctx::range("submitters", 2, 6);
        let capacity = *ctx::pick("channel.capacity", &[128usize, 1, 2, 8]);
        let rate_num = if preempting { 1 + ctx::choose("preempt.rate", 8) } else { 0 };
        let topic = Topic::from(key_bytes(ctx::seed() ^ 0x7470, 0));
        // plan[s] = operation indices submitter s submits, in order.
        let mut plan: Vec<Vec<usize>> = vec![];
        let mut n_ops = 0usize;
        for _ in 0..n_sub {
            let k = ctx::range("submissions", 1, 5);
            let mut v = vec![];
            for _ in 0..k {
                if n_ops > 0 && ctx::chance("same_operation", 1, 3) {
                    v.push(ctx::choose("which_operation", n_ops));
                } else {
                    v.push(n_ops);
                    n_ops += 1;
                }
            }
            plan.push(v);
        }
        // Distinct operations: two authors, consecutive sequence numbers (content is irrelevant to
        // the stub worker; only the ids matter).
        let keys = [signing_key(0), signing_key(1)];
        let mut ops = vec![];
        let mut last: [Option<Hash>; 2] = [None, None];
        for i in 0..n_ops {
            let a = i % 2;
            let op = make_op(&keys[a], keys[a].verifying_key(), topic, (i / 2) as u32, last[a], false, Some(format!("op{i}").into_bytes()));
            last[a] = Some(op.hash);
            ops.push(op);
        }
        ev!(
            "submitters={n_sub} operations={n_ops} channel capacity={capacity} preemption at H1: {}",
            if preempting { format!("{rate_num}/8 per visit{}", if all_sites { ", also between track / send / ready inside Pipeline::process" } else { "" }) } else { "never (fault-free)".to_string() }
        );
        for (s, v) in plan.iter().enumerate() {
            ev!("plan s{s}: {}", v.iter().map(|i| format!("op{i}")).collect::<Vec<_>>().join(" "));
        }

        let shared = Arc::new(Mutex::new(Shared {
            in_flight: vec![None; n_sub],
            window: vec![None; n_sub],
            preempted: vec![false; n_sub],
            hit: vec![false; n_sub],
            preempted_process: vec![false; n_sub],
            labels: ops.iter().enumerate().map(|(i, o)| (o.hash, format!("op{i}"))).collect(),
            site_visits: vec![0; n_sub],
        }));

        // ---- the yield handler: the pipeline thread's preemption of a submitter ----------------
        {
            let shared = shared.clone();
            p2panda_core::verif::set_yield_handler(move |name| {
                let ready_site = name == SITE;
                if !ready_site && name != SITE_TRACK_SEND && name != SITE_SEND_READY {
                    return None;
                }
                let s = CURRENT.with(|c| c.get());
                if s == usize::MAX {
                    return None;
                }
                if ready_site {
                    shared.lock().unwrap().site_visits[s] += 1;
                }
                if rate_num == 0 || (!ready_site && !all_sites) || !ctx::chance("preempt", rate_num, 8) {
                    return None;
                }
                let us = *ctx::pick("preempt.window_us", &[0u64, 1_000, 2_000, 5_000, 20_000]);
                if !ready_site {
                    // Between the steps of Pipeline::process: a plain scheduling point.
                    ctx::fault("preempt(pipeline.process)");
                    ctx::probe(if name == SITE_TRACK_SEND { "preempted_between_track_and_send" } else { "preempted_between_send_and_ready" });
                    let mut sh = shared.lock().unwrap();
                    sh.preempted_process[s] = true;
                    let label = sh.in_flight[s].and_then(|(_, h)| sh.labels.get(&h).cloned()).unwrap_or_default();
                    ev!("t={} s{s}: PREEMPTED inside Pipeline::process({label}) {}: {}", des::now_us(), if name == SITE_TRACK_SEND { "after track, before send" } else { "after send, before ready" }, if us == 0 { "one scheduler yield".to_string() } else { format!("{us} us") });
                    return Some(Box::pin(async move {
                        if us == 0 {
                            des::yield_now().await;
                        } else {
                            tokio::time::sleep(Duration::from_micros(us)).await;
                        }
                    }));
                }
                ctx::fault("preempt(task.ready)");
                let waiting_for = shared.lock().unwrap().in_flight[s].map(|(_, h)| h);
                {
                    let mut sh = shared.lock().unwrap();
                    sh.preempted[s] = true;
                    sh.window[s] = waiting_for;
                    let label = waiting_for.and_then(|h| sh.labels.get(&h).cloned()).unwrap_or_default();
                    ev!("t={} s{s}: PREEMPTED inside Task::ready({label}) after the result check, before notified(): {}", des::now_us(), if us == 0 { "one scheduler yield".to_string() } else { format!("{us} us") });
                }
                let guard = WindowGuard { shared: shared.clone(), s };
                Some(Box::pin(async move {
                    let _guard = guard;
                    if us == 0 {
                        des::yield_now().await;
                    } else {
                        tokio::time::sleep(Duration::from_micros(us)).await;
                    }
                }))
            });
        }
        struct ClearHandler;
        impl Drop for ClearHandler {
            fn drop(&mut self) {
                p2panda_core::verif::clear_yield_handler();
            }
        }
        let _clear = ClearHandler;

        // ---- the run --------------------------------------------------------------------------
        let sh_run = shared.clone();
        let ops_run = ops.clone();
        let plan_run = plan.clone();
        let r = des::run(move || async move {
            let shared = sh_run;
            let tasks: NodeTasks = NodeTasks::new();
            let (tx, mut rx) = tokio::sync::mpsc::channel::<NodeEvent>(capacity);
            let pipeline: NodePipeline = NodePipeline::from_parts(tx, tasks.clone());

            // Worker: the body of the pipeline thread with the processors replaced by a delay.
            let worker = {
                let shared = shared.clone();
                let tasks = tasks.clone();
                des::spawn(async move {
                    while let Some(event) = rx.recv().await {
                        let h = event.hash();
                        des::delay("worker.delay_us", &[0, 0, 1_000, 2_000, 10_000]).await;
                        tasks.mark_as_done(h, event).await;
                        let mut sh = shared.lock().unwrap();
                        let mut inside = vec![];
                        for s in 0..sh.window.len() {
                            if sh.window[s] == Some(h) {
                                sh.hit[s] = true;
                                inside.push(format!("s{s}"));
                            }
                        }
                        let label = sh.labels.get(&h).cloned().unwrap_or_default();
                        if inside.is_empty() {
                            ev!("t={} worker: mark_as_done({label})", des::now_us());
                        } else {
                            ctx::probe("mark_as_done_inside_ready_window");
                            ev!("t={} worker: mark_as_done({label}) INSIDE the Task::ready window of {}", des::now_us(), inside.join(","));
                        }
                    }
                })
            };

            let mut handles = vec![];
            for (s, my_plan) in plan_run.iter().cloned().enumerate() {
                let shared = shared.clone();
                let pipeline = pipeline.clone();
                let ops = ops_run.clone();
                let body = async move {
                    for (k, op_idx) in my_plan.into_iter().enumerate() {
                        des::delay("submit.gap_us", &[0, 0, 1_000, 3_000, 20_000, 50_000]).await;
                        let op = ops[op_idx].clone();
                        let h = op.hash;
                        let input = event_for(op, topic);
                        {
                            let mut sh = shared.lock().unwrap();
                            if sh.in_flight.iter().any(|f| matches!(f, Some((_, x)) if *x == h)) {
                                ctx::probe("same_operation_in_flight_twice");
                            }
                            sh.in_flight[s] = Some((k, h));
                            sh.preempted[s] = false;
                            sh.hit[s] = false;
                            sh.preempted_process[s] = false;
                        }
                        let visits_before = shared.lock().unwrap().site_visits[s];
                        let label = shared.lock().unwrap().labels.get(&h).cloned().unwrap_or_default();
                        let t0 = des::now_us();
                        ev!("t={t0} s{s}#{k}: process({label})");
                        let out = tokio::time::timeout(Duration::from_secs(CALL_TIMEOUT_S), pipeline.process(input)).await;
                        let (preempted, hit, preempted_process) = {
                            let mut sh = shared.lock().unwrap();
                            sh.in_flight[s] = None;
                            sh.window[s] = None;
                            (sh.preempted[s], sh.hit[s], sh.preempted_process[s])
                        };
                        match out {
                            Ok(event) => {
                                let got = event.hash();
                                // Operation ids derive from the run seed; the trace names operations
                                // by their index so that equal schedules have equal fingerprints.
                                let got_label = shared.lock().unwrap().labels.get(&got).cloned().unwrap_or_else(|| format!("unknown operation {}", short(&got)));
                                ev!("t={} s{s}#{k}: process({label}) returned the event of {got_label}", des::now_us());
                                if got != h {
                                    violation("returned-result-of-another-operation", "Pipeline::process", format!("submitter {s} submitted {label} and got the event of {got_label}"));
                                }
                                if shared.lock().unwrap().site_visits[s] == visits_before {
                                    // ready() found the result in the first check.
                                    ctx::probe("result_already_there_at_check");
                                }
                                if preempted && !hit {
                                    ctx::probe("preempted_but_completed");
                                }
                                if hit {
                                    ctx::probe("completed_although_mark_as_done_inside_window");
                                }
                            }
                            Err(_) => {
                                let site = if hit {
                                    SITE_LOST_WAKEUP
                                } else if preempted {
                                    SITE_PREEMPTED_NOT_HIT
                                } else if preempted_process {
                                    SITE_PROCESS_PREEMPTED
                                } else {
                                    SITE_NO_PREEMPTION
                                };
                                ev!("t={} s{s}#{k}: process({label}) DID NOT RETURN within {CALL_TIMEOUT_S} simulated seconds", des::now_us());
                                violation(
                                    "submission-never-completes",
                                    site,
                                    format!("submitter {s}, submission #{k}: process({label}) submitted at t={t0} us had not returned {CALL_TIMEOUT_S} simulated seconds later (preempted at H1: {preempted}; mark_as_done for it ran inside the window: {hit}; preempted between the steps of process: {preempted_process})"),
                                );
                                // The property is violated for this submitter; its later submissions add
                                // nothing but trace length.
                                break;
                            }
                        }
                    }
                };
                if starved {
                    handles.push(des::spawn(des::Starved::new(Tagged { id: s, inner: Box::pin(body) })));
                } else {
                    handles.push(des::spawn(Tagged { id: s, inner: Box::pin(body) }));
                }
            }
            drop(pipeline);
            for (s, h) in handles.into_iter().enumerate() {
                match h.await {
                    Ok(()) => {}
                    Err(e) if e.is_panic() => std::panic::resume_unwind(e.into_panic()),
                    Err(_) => ev!("submitter {s} was cancelled"),
                }
            }
            // All senders are gone now: the worker sees the channel close and ends.
            match worker.await {
                Ok(()) => {}
                Err(e) if e.is_panic() => std::panic::resume_unwind(e.into_panic()),
                Err(_) => {}
            }
            let left = tasks.len().await;
            ev!("t={} all submitters returned; tasks still tracked: {left}", des::now_us());
        });
        if r.is_err() {
            violation("submission-never-completes", "simulated 1 h watchdog fired", "the whole run did not finish within one simulated hour".into());
        }
    }
}
