//! C31 — Replicas of a group converge to the same membership and access.
//!
//! Any two replicas that processed the same set of group operations, each in some causal order,
//! report identical members and access levels (including access conditions) for every group, and
//! repeated queries on one replica return the same answer.

use simcore::{Budget, Property, Tier, ctx};

use super::groupworld::{Cfg, Expiry, run_world};

pub struct C31Prop;
pub static C31: C31Prop = C31Prop;

const MODES: [&str; 6] = ["linear-fault-free", "concurrent-unit-conditions", "concurrent-ordered-conditions", "conflict-scenarios-ordered-conditions", "nested-groups-ordered-conditions", "nested-groups-unit-conditions"];

impl Property for C31Prop {
    fn id(&self) -> &'static str {
        "C31"
    }
    fn budget(&self, tier: Tier) -> Budget {
        match tier {
            Tier::Quick => Budget { runs: 6_000, wall_cap_s: 30 },
            Tier::Thorough => Budget { runs: 80_000, wall_cap_s: 240 },
        }
    }
    fn shrink_budget_s(&self, tier: Tier) -> u64 {
        // Per violation signature; the unchanged tree currently yields six.
        match tier {
            Tier::Quick => 4,
            Tier::Thorough => 15,
        }
    }
    fn modes(&self) -> u32 {
        MODES.len() as u32
    }
    fn mode_name(&self, mode: u32) -> &'static str {
        MODES[mode as usize % MODES.len()]
    }
    fn rule(&self) -> &'static str {
        "one run = 3-5 replicas with real GroupCrdtStates (plus up to 3 passive identities), a random history of create/add/remove/promote/demote/nested-group operations authored on the replicas' local views (dependencies = local heads) including scripted conflicts (two managers concurrently act on one member), delivered per replica in a drawn causal order with duplicates and partitions; after heal and full delivery all replicas, a canonical replica on another thread and CBOR-reloaded twins are compared for every group; non-trivial = at least two concurrent operations or a fault fired or >= 4 operations; distinct = distinct trace fingerprint"
    }
    fn components_real(&self) -> Vec<&'static str> {
        vec![
            "p2panda_auth::group::GroupCrdt::process / validate",
            "p2panda_auth::group::GroupCrdtState::{members, root_members, heads, has_group}",
            "p2panda_auth::group::resolver::StrongRemove",
            "p2panda_auth::group::crdt::state::{create, add, remove, promote, demote, merge}",
            "p2panda_auth::Access (PartialOrd with conditions)",
            "p2panda_auth::graph::{concurrent_bubbles, split_bubble}",
            "serde/CBOR round trip of GroupCrdtState (p2panda_core::cbor), as the groups store does between operations",
        ]
    }
    fn components_stub(&self) -> Vec<&'static str> {
        vec![
            "network and causal-delivery layer: per-replica in-flight pools with a dependency buffer, partitions with gossip on re-join, duplicate delivery",
            "operation type: harness struct implementing p2panda_auth::traits::Operation (char identities, u32 operation ids, as in the crate's test_utils)",
            "condition types: () and a totally ordered Expiry(u64)",
        ]
    }
    fn assumptions(&self) -> Vec<&'static str> {
        vec!["operations are handed to a replica only after their dependencies were processed there (the crate's documented requirement)", "honest authors publish an operation only if their own replica accepted it"]
    }
    fn expected_probes(&self) -> Vec<&'static str> {
        vec![
            "concurrent_same_level_with_and_without_condition",
            "concurrent_same_level_different_conditions",
            "concurrent_grants_of_different_levels",
            "concurrent_remove_and_promote",
            "concurrent_remove_and_demote",
            "concurrent_remove_and_readd",
            "concurrent_mutual_remove",
            "concurrent_remove_of_acting_member",
            "nested_group",
            "nested_group_cycle",
            "members_query_would_not_return",
            "state_reloaded_via_cbor",
        ]
    }
    fn run(&self) {
        let mode = ctx::mode();
        let cfg = Cfg {
            linear: mode == 0,
            net_faults: mode != 0,
            byzantine: false,
            conflict_w: match mode {
                3 => 8,
                0 => 0,
                _ => 2,
            },
            nest_w: if mode >= 4 { 4 } else { 1 },
            max_groups: if mode >= 4 { 4 } else { 3 },
            max_ops: 26,
            // The `()` modes never set access conditions (`Access<()>` is the crate's default; a
            // `Some(())` condition does not even survive the store's CBOR codec, where it reads
            // back as `None`): `Access` then compares by level only, so these sub-batches look for
            // divergence that does not come from the conditions comparator.
            conditions: mode != 1 && mode != 5,
            check_c31: true,
            check_c33: false,
        };
        match mode {
            1 | 5 => run_world::<()>(cfg),
            _ => run_world::<Expiry>(cfg),
        }
    }
}
