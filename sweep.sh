#!/bin/bash
# [TIER=thorough] ./sweep.sh <seeds...> — run every registered check (default tier quick) under the given VERIF_SEEDs and report any
# run that exits non-zero on the (supposedly unchanged) tree.
cd "$(dirname "$0")"
PROPS=$(python3 -c "import json;print(' '.join(c['property_id'] for c in json.load(open('MANIFEST.json'))['checks']))")
./check --setup || exit 2
for s in "$@"; do
  for p in $PROPS; do
    out=$(VERIF_SEED=$s ./check $p --tier ${TIER:-quick} 2>&1); rc=$?
    line=$(echo "$out" | grep -E "(quick|thorough):" | tail -1)
    echo "seed=$s $p rc=$rc $line"
    if [ $rc -ne 0 ]; then echo "$out" | grep -E "^violation|VIOLATION|HARNESS" | cut -c1-300; fi
  done
done
