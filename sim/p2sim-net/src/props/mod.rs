pub mod c18;

pub fn all() -> Vec<&'static dyn simcore::Property> {
    vec![&c18::C18]
}
