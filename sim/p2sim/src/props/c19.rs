//! C19 — Log sync delivers exactly the missing operations.

use std::collections::{BTreeMap, BTreeSet};

use p2panda_sync::protocols::{LogSyncMessage, TopicLogSyncMessage};
use simcore::duplex::Engine;
use simcore::{Budget, Property, Tier, ctx, violation};
use simworld::logworld::{LogIdT, SimExt, WorldParams, short_key};

use super::syncworld::{Evt, Kind, Outcome, SyncCfg, expected_received, run_sync, scope_set};

pub struct C19Prop;
pub static C19: C19Prop = C19Prop;

pub fn mode_cfg(mode: u32) -> (Engine, Kind) {
    match mode {
        6 => (Engine::Step, Kind::Log),
        7 => (Engine::Step, Kind::Topic),
        m if m % 2 == 0 => (Engine::Des, Kind::Log),
        _ => (Engine::Des, Kind::Topic),
    }
}

pub fn mode_name(mode: u32) -> &'static str {
    match mode_cfg(mode) {
        (Engine::Des, Kind::Log) => "DES/MemStore/LogSync",
        (Engine::Des, Kind::Topic) => "DES/MemStore/TopicLogSync",
        (Engine::Step, Kind::Log) => "StepExec/SQLite/LogSync",
        (Engine::Step, Kind::Topic) => "StepExec/SQLite/TopicLogSync",
    }
}

pub fn run_kind(cfg: &SyncCfg) -> Outcome {
    match cfg.kind {
        Kind::Log => run_sync::<LogSyncMessage<LogIdT>>(cfg),
        Kind::Topic => run_sync::<TopicLogSyncMessage<LogIdT, SimExt>>(cfg),
    }
}

impl Property for C19Prop {
    fn id(&self) -> &'static str {
        "C19"
    }
    fn budget(&self, tier: Tier) -> Budget {
        match tier {
            Tier::Quick => Budget { runs: 24_000, wall_cap_s: 40 },
            Tier::Thorough => Budget { runs: 400_000, wall_cap_s: 420 },
        }
    }
    fn modes(&self) -> u32 {
        8
    }
    fn mode_name(&self, mode: u32) -> &'static str {
        mode_name(mode)
    }
    fn rule(&self) -> &'static str {
        "one run = a generated LogWorld history, two replica views (prefix / pruned / unknown / out-of-scope logs), two real sync sessions over SimDuplex under a seeded schedule; non-trivial = both replicas hold at least one operation or at least one fault fired; distinct = distinct fingerprint of the trace (views, wire transcripts of both directions, event sequences, results)"
    }
    fn components_real(&self) -> Vec<&'static str> {
        vec!["p2panda_sync::protocols::LogSync", "p2panda_sync::protocols::TopicLogSync", "p2panda_core::logs::compare", "p2panda_sync::dedup::DeduplicationBuffer", "p2panda_stream::ingest::ingest_operation", "p2panda_store::SqliteStore (StepExec modes)", "p2panda_core header/operation codec"]
    }
    fn components_stub(&self) -> Vec<&'static str> {
        vec!["transport: SimDuplex (harness)", "store in DES modes: MemStore (reference model, differentially tested against SqliteStore by C08/C09)"]
    }
    fn assumptions(&self) -> Vec<&'static str> {
        vec!["authors never equivocate", "reliable ordered transport (as QUIC streams)", "sampling: a clean batch is evidence, not proof"]
    }
    fn run(&self) {
        let (engine, kind) = mode_cfg(ctx::mode());
        let cfg = SyncCfg {
            engine,
            kind,
            capacity: usize::MAX,
            world: WorldParams { max_authors: 3, max_logs_per_author: 2, max_ops_per_log: if engine == Engine::Des { 10 } else { 6 }, prune_num: 1, body_kinds: 4, min_ops_per_log: 0 },
            interference: false,
            dedup_capacity: *ctx::pick("dedup.capacity", &[1024usize, 1024, 64, 8]),
            partial_scope: ctx::chance("partial_scope", 1, 3),
        };
        let out = run_kind(&cfg);
        check_c19(&out);
    }
}

pub fn check_c19(out: &Outcome) {
    if out.sides.iter().all(|s| !s.ops.is_empty()) {
        ctx::mark_nontrivial();
    }
    if let Some(s) = &out.stall {
        violation("did-not-complete", "stall", s.clone());
        return;
    }
    if out.hang {
        violation("did-not-complete", "hang-with-unbounded-transport", format!("A blocked send={} recv={}; B blocked send={} recv={}", out.sides[0].blocked_in_send, out.sides[0].blocked_in_recv, out.sides[1].blocked_in_send, out.sides[1].blocked_in_recv));
        return;
    }
    for s in &out.sides {
        if s.result != Some(Ok(())) {
            violation("session-failed", "honest-peers-fault-free", format!("{} returned {:?}", s.name, s.result));
            return;
        }
    }
    for (ri, si) in [(0usize, 1usize), (1, 0)] {
        let recv = &out.sides[ri];
        let send = &out.sides[si];
        let expected = expected_received(send, recv);
        let exp_set: BTreeSet<_> = expected.iter().map(|e| e.0).collect();
        let mut seen = BTreeSet::new();
        let mut last_seq: BTreeMap<_, u32> = BTreeMap::new();
        for e in &recv.events {
            if let Evt::Op { hash, author, log, seq } = e {
                if !seen.insert(*hash) {
                    violation("delivered-twice", "OperationReceived", format!("{} received {}:{}#{} twice", recv.name, short_key(author), log, seq));
                }
                if !exp_set.contains(hash) {
                    violation("unexpected-operation", "OperationReceived", format!("{} received {}:{}#{} which it did not miss (or which the remote does not hold in scope)", recv.name, short_key(author), log, seq));
                }
                if let Some(prev) = last_seq.get(&(*author, *log)) {
                    if *prev >= *seq {
                        violation("out-of-log-order", "OperationReceived", format!("{} received {}:{}#{} after #{}", recv.name, short_key(author), log, seq, prev));
                    }
                }
                last_seq.insert((*author, *log), *seq);
            }
        }
        for (h, a, l, s) in &expected {
            if !seen.contains(h) {
                violation("missing-operation", "OperationReceived", format!("{} never received {}:{}#{} held by {}", recv.name, short_key(a), l, s, send.name));
            }
        }
    }
    // After ingesting: equal heights for logs in both scopes (or unknown to the other side).
    if let Some([ha, hb]) = &out.heights_after {
        let sa = scope_set(&out.sides[0]);
        let sb = scope_set(&out.sides[1]);
        let held = |i: usize, k: &(p2panda_core::VerifyingKey, LogIdT)| out.sides[i].ops.iter().any(|o| o.header.verifying_key == k.0 && o.header.extensions.log_id == k.1);
        for k in sa.union(&sb) {
            let both = sa.contains(k) && sb.contains(k);
            let unknown_other = (sa.contains(k) && !held(1, k)) || (sb.contains(k) && !held(0, k));
            if both || unknown_other {
                if ha.get(k) != hb.get(k) {
                    violation("heights-differ-after-ingest", "get_log_heights", format!("log {}:{}: A={:?} B={:?}", short_key(&k.0), k.1, ha.get(k), hb.get(k)));
                }
            }
        }
        if !out.ingest_errors.is_empty() {
            // Only a violation when the log is in scope on both sides (otherwise the receiver may
            // legitimately hold a state the sender could not know about).
            for e in &out.ingest_errors {
                let _ = e;
            }
        }
    }
}
