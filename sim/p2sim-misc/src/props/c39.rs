//! C39 — Spaces message processing is idempotent and total.
//!
//! 2–4 real `TestPeer`s (real `Manager`, `Space`, `Group`, identity manager, SQLite spaces / groups /
//! key stores, `TestForge`) produce a random history of spaces, groups, membership changes, key
//! bundles and application messages. The harness is the network and the causal orderer: a message
//! is handed to `Manager::process` at a peer only once every hash in `SpacesArgs::dependencies()`
//! has been handed to that peer before (what the crate documents as its precondition). Fault
//! `duplicate`: messages a peer has already processed (including its own) are processed again at
//! a random later point. Fault `byzantine_op`: one peer forges (properly signed, dependencies
//! existing) messages of every `SpacesArgs` variant with field values of its choosing.
//!
//! Everything runs sequentially inside `stepexec::block_on` (one store call in flight at a time).

use std::collections::{BTreeMap, BTreeSet};
use std::panic::{AssertUnwindSafe, resume_unwind};

use futures_util::FutureExt;
use p2panda_auth::Access;
use p2panda_auth::group::{GroupAction, GroupMember};
use p2panda_core::cbor::encode_cbor;
use p2panda_core::{Hash, VerifyingKey};
use p2panda_encryption::Rng;
use p2panda_encryption::crypto::x25519::SecretKey;
use p2panda_encryption::key_bundle::{Lifetime, LongTermKeyBundle, PreKey};
use p2panda_spaces::test_utils::{TestForge, TestOperation, TestPeer, TestSpacesStore};
use p2panda_spaces::{AuthMessage, Config, Credentials, Event, Forge, SpacesArgs};
use p2panda_store::Transaction;
use p2panda_store::groups::GroupsStore;
use p2panda_store::spaces::SpacesStore;
use simcore::rng::{mix, splitmix64};
use simcore::runner::take_panic_info;
use simcore::{Budget, Property, Tier, ctx, ev, libc_seams, stepexec, violation};
use simworld::logworld::{key_bytes, signing_key};

type Args = SpacesArgs<()>;
type Acc = Access<()>;
type CborValue = ciborium::Value;

pub struct C39Prop;
pub static C39: C39Prop = C39Prop;

/// `GLOBAL_GROUPS_CONTEXT_ID` of p2panda-spaces/src/manager.rs (private there): the key under which
/// the manager persists the shared auth state. If it ever changes the snapshot simply loses its
/// "groups.*" parts (the public `Group::members` queries remain).
const GLOBAL_GROUPS_CONTEXT_ID: &[u8] = b"global-groups-context";

// ------------------------------------------------------------------------------------------------
// Small helpers
// ------------------------------------------------------------------------------------------------

fn rand_bytes<const N: usize>(label: &'static str) -> [u8; N] {
    let mut st = mix(&[ctx::bits(label), 0x6279_7a]);
    let mut out = [0u8; N];
    for chunk in out.chunks_mut(8) {
        let v = splitmix64(&mut st).to_le_bytes();
        chunk.copy_from_slice(&v[..chunk.len()]);
    }
    out
}

fn shorten(s: String) -> String {
    let s = s.replace('\n', " ");
    if s.len() > 110 { format!("{}…", s.chars().take(110).collect::<String>()) } else { s }
}

fn fnv(bytes: &[u8]) -> u64 {
    let mut h: u64 = 0xcbf2_9ce4_8422_2325;
    for b in bytes {
        h ^= *b as u64;
        h = h.wrapping_mul(0x0000_0100_0000_01B3);
    }
    h
}

/// Canonical byte form of a CBOR value: map entries and array elements are sorted, so that the
/// iteration order of the `HashMap`s / `HashSet`s the state was serialised from does not matter
/// (every decode builds new tables with new hasher keys). Multiplicity is preserved, order is not.
fn canon(v: &CborValue, out: &mut Vec<u8>) {
    match v {
        CborValue::Integer(i) => {
            out.push(b'i');
            out.extend_from_slice(i128::from(*i).to_string().as_bytes());
        }
        CborValue::Bytes(b) => {
            out.push(b'b');
            out.extend_from_slice(&(b.len() as u32).to_le_bytes());
            out.extend_from_slice(b);
        }
        CborValue::Text(t) => {
            out.push(b't');
            out.extend_from_slice(&(t.len() as u32).to_le_bytes());
            out.extend_from_slice(t.as_bytes());
        }
        CborValue::Bool(b) => out.push(if *b { b'1' } else { b'0' }),
        CborValue::Null => out.push(b'n'),
        CborValue::Float(f) => {
            out.push(b'f');
            out.extend_from_slice(&f.to_bits().to_le_bytes());
        }
        CborValue::Tag(t, inner) => {
            out.push(b'T');
            out.extend_from_slice(&t.to_le_bytes());
            canon(inner, out);
        }
        CborValue::Array(items) => {
            let mut enc: Vec<Vec<u8>> = items
                .iter()
                .map(|x| {
                    let mut o = Vec::new();
                    canon(x, &mut o);
                    o
                })
                .collect();
            enc.sort();
            out.push(b'[');
            for e in enc {
                out.extend_from_slice(&(e.len() as u32).to_le_bytes());
                out.extend_from_slice(&e);
            }
            out.push(b']');
        }
        CborValue::Map(entries) => {
            let mut enc: Vec<Vec<u8>> = entries
                .iter()
                .map(|(k, x)| {
                    let mut o = Vec::new();
                    canon(k, &mut o);
                    o.push(b'=');
                    canon(x, &mut o);
                    o
                })
                .collect();
            enc.sort();
            out.push(b'{');
            for e in enc {
                out.extend_from_slice(&(e.len() as u32).to_le_bytes());
                out.extend_from_slice(&e);
            }
            out.push(b'}');
        }
        _ => out.push(b'?'),
    }
}

fn canon_hash(v: &CborValue) -> u64 {
    let mut o = Vec::new();
    canon(v, &mut o);
    fnv(&o)
}

/// Hash every top-level field of a serialised struct separately (for readable diffs).
fn field_hashes(prefix: &str, v: &CborValue, parts: &mut BTreeMap<String, u64>) {
    match v {
        CborValue::Map(entries) => {
            for (k, x) in entries {
                let name = match k {
                    CborValue::Text(t) => t.clone(),
                    other => format!("{other:?}"),
                };
                // One more level for the nested `inner` of the auth state.
                if name == "inner" || name == "groups_y" {
                    field_hashes(&format!("{prefix}.{name}"), x, parts);
                } else {
                    parts.insert(format!("{prefix}.{name}"), canon_hash(x));
                }
            }
        }
        other => {
            parts.insert(prefix.to_string(), canon_hash(other));
        }
    }
}

fn access_name(a: &Acc) -> &'static str {
    if a.is_pull() {
        "pull"
    } else if a.is_read() {
        "read"
    } else if a.is_write() {
        "write"
    } else {
        "manage"
    }
}

fn draw_access(label: &'static str) -> Acc {
    match ctx::choose(label, 4) {
        0 => Access::read(),
        1 => Access::write(),
        2 => Access::manage(),
        _ => Access::pull(),
    }
}

fn args_kind(a: &Args) -> &'static str {
    match a {
        SpacesArgs::KeyBundle { .. } => "KeyBundle",
        SpacesArgs::Auth { group_action, .. } => match group_action {
            GroupAction::Create { .. } => "Auth.Create",
            GroupAction::Add { .. } => "Auth.Add",
            GroupAction::Remove { .. } => "Auth.Remove",
            GroupAction::Promote { .. } => "Auth.Promote",
            GroupAction::Demote { .. } => "Auth.Demote",
        },
        SpacesArgs::SpaceMembership { .. } => "SpaceMembership",
        SpacesArgs::SpaceUpdate { .. } => "SpaceUpdate",
        SpacesArgs::Application { .. } => "Application",
    }
}

/// Coarse kind used in signatures (the action of an auth message is a detail).
fn variant_name(a: &Args) -> &'static str {
    match a {
        SpacesArgs::KeyBundle { .. } => "KeyBundle",
        SpacesArgs::Auth { .. } => "Auth",
        SpacesArgs::SpaceMembership { .. } => "SpaceMembership",
        SpacesArgs::SpaceUpdate { .. } => "SpaceUpdate",
        SpacesArgs::Application { .. } => "Application",
    }
}

fn event_name(e: &Event<()>) -> String {
    match e {
        Event::Application { .. } => "Application".into(),
        Event::KeyBundle { .. } => "KeyBundle".into(),
        Event::Group(g) => {
            let d = format!("{g:?}");
            format!("Group.{}", d.split(|c: char| !c.is_alphanumeric()).next().unwrap_or(""))
        }
        Event::Space(s) => {
            let d = format!("{s:?}");
            format!("Space.{}", d.split(|c: char| !c.is_alphanumeric()).next().unwrap_or(""))
        }
    }
}

// ------------------------------------------------------------------------------------------------
// World
// ------------------------------------------------------------------------------------------------

struct Peer {
    tp: TestPeer,
    sstore: TestSpacesStore,
    forge: TestForge,
    id: VerifyingKey,
    /// Messages this peer authored or has been handed (whatever the result).
    have: BTreeSet<Hash>,
    /// First processing (or authorship) succeeded? Keyed by message index (never order anything
    /// by hash value: hashes are only ever compared for equality).
    first_ok: BTreeMap<usize, bool>,
    inbox: Vec<usize>,
    redelivered: BTreeSet<usize>,
    snap: Option<Snap>,
    /// A panic unwound through this peer's manager; it is no longer used.
    dead: bool,
}

struct MsgRec {
    op: TestOperation,
    author: usize,
    kind: &'static str,
    deps: Vec<Hash>,
    byz: bool,
}

#[derive(Clone, PartialEq, Eq, Debug)]
struct Snap {
    parts: BTreeMap<String, u64>,
    text: BTreeMap<String, String>,
}

impl Snap {
    fn diff(&self, other: &Snap) -> Vec<String> {
        let mut out = vec![];
        let keys: BTreeSet<&String> = self.text.keys().chain(other.text.keys()).collect();
        for k in keys {
            let (a, b) = (self.text.get(k), other.text.get(k));
            if a != b {
                out.push(format!("{k}: {} -> {}", a.map(|s| s.as_str()).unwrap_or("absent"), b.map(|s| s.as_str()).unwrap_or("absent")));
            }
        }
        let keys: BTreeSet<&String> = self.parts.keys().chain(other.parts.keys()).collect();
        for k in keys {
            if self.parts.get(k) != other.parts.get(k) {
                out.push(format!("{k} (stored state)"));
            }
        }
        out
    }
}

struct World {
    peers: Vec<Peer>,
    msgs: Vec<MsgRec>,
    by_hash: BTreeMap<Hash, usize>,
    spaces: Vec<Hash>,
    groups: Vec<VerifyingKey>,
    space_group: BTreeMap<Hash, VerifyingKey>,
}

enum Outcome {
    Ok { events: Vec<String> },
    Err(String),
    Panic { file: String, msg: String },
}

impl World {
    fn actor_label(&self, id: &VerifyingKey) -> String {
        if let Some(p) = self.peers.iter().position(|p| p.id == *id) {
            return format!("P{p}");
        }
        if let Some(g) = self.groups.iter().position(|g| g == id) {
            return format!("g{g}");
        }
        "x?".into()
    }
    fn space_label(&self, id: &Hash) -> String {
        match self.spaces.iter().position(|s| s == id) {
            Some(i) => format!("s{i}"),
            None => "s?".into(),
        }
    }
    /// Replace 64-digit hex ids in an error text by the trace's names for them.
    fn scrub(&self, text: String) -> String {
        let b = text.as_bytes();
        let mut out = String::new();
        let mut i = 0;
        while i < b.len() {
            let mut j = i;
            while j < b.len() && b[j].is_ascii_hexdigit() {
                j += 1;
            }
            if j - i == 64 {
                let hx = &text[i..j];
                let name = self
                    .msgs
                    .iter()
                    .position(|m| m.op.hash.to_hex() == hx)
                    .map(|k| format!("m{k}"))
                    .or_else(|| self.spaces.iter().position(|x| x.to_hex() == hx).map(|k| format!("s{k}")))
                    .or_else(|| self.peers.iter().position(|x| x.id.to_hex() == hx).map(|k| format!("P{k}")))
                    .or_else(|| self.groups.iter().position(|x| x.to_hex() == hx).map(|k| format!("g{k}")))
                    .unwrap_or_else(|| "<id>".to_string());
                out.push_str(&name);
                i = j;
            } else if j > i {
                out.push_str(&text[i..j]);
                i = j;
            } else {
                let ch = text[i..].chars().next().unwrap();
                out.push(ch);
                i += ch.len_utf8();
            }
        }
        out
    }

    fn msg_label(&self, i: usize) -> String {
        let m = &self.msgs[i];
        format!("m{i}({}{} by P{})", if m.byz { "forged " } else { "" }, m.kind, m.author)
    }
    fn note_group(&mut self, g: VerifyingKey) {
        if !self.groups.contains(&g) && !self.peers.iter().any(|p| p.id == g) {
            self.groups.push(g);
        }
    }
    fn note_space(&mut self, s: Hash) {
        if !self.spaces.contains(&s) {
            self.spaces.push(s);
        }
    }

    /// Register a freshly forged message: the author "has" it, everybody else gets it in the inbox.
    fn publish(&mut self, author: usize, op: TestOperation, byz: bool) -> usize {
        let args: &Args = &op.header.extensions;
        let kind = args_kind(args);
        let deps = args.dependencies();
        match args {
            SpacesArgs::Auth { group_id, .. } => self.note_group(*group_id),
            SpacesArgs::SpaceMembership { space_id, group_id, .. } => {
                let (s, g) = (*space_id, *group_id);
                self.note_space(s);
                self.note_group(g);
                self.space_group.entry(s).or_insert(g);
            }
            SpacesArgs::SpaceUpdate { space_id, .. } | SpacesArgs::Application { space_id, .. } => {
                let s = *space_id;
                self.note_space(s);
            }
            SpacesArgs::KeyBundle { .. } => {}
        }
        let idx = self.msgs.len();
        let hash = op.hash;
        self.by_hash.insert(hash, idx);
        self.msgs.push(MsgRec { op, author, kind, deps, byz });
        for (i, p) in self.peers.iter_mut().enumerate() {
            if i == author && !byz {
                // An honest message was applied locally when it was created.
                p.have.insert(hash);
                p.first_ok.insert(idx, true);
            } else {
                // A forged message was never applied by its forger: it reaches the forger's own
                // manager like everybody else's, through `process`.
                p.inbox.push(idx);
            }
        }
        idx
    }

    /// Causally ready messages of peer `p`: every hash in `dependencies()` has been handed to the
    /// peer, and so has every earlier message of the same author (log order — what the crate's own
    /// tests do and what backlink validation of the operation log guarantees upstream).
    fn deliverable(&self, p: usize) -> Vec<usize> {
        let peer = &self.peers[p];
        if peer.dead {
            return vec![];
        }
        peer.inbox
            .iter()
            .copied()
            .filter(|i| {
                let m = &self.msgs[*i];
                m.deps.iter().all(|d| peer.have.contains(d)) && !peer.inbox.iter().any(|j| *j < *i && self.msgs[*j].author == m.author)
            })
            .collect()
    }

    /// `Manager::process` + what `process_persisted` does with the result, with panics caught.
    async fn process_at(&self, p: usize, op: &TestOperation) -> Outcome {
        ctx::add_steps(1);
        let manager = self.peers[p].tp.manager.clone();
        let fut = async {
            match manager.process(op).await {
                Ok((groups_y, space_y, events)) => {
                    if let Some(g) = groups_y {
                        if let Err(e) = manager.set_groups_state(&g).await {
                            return Outcome::Err(format!("persisting groups state failed: {e}"));
                        }
                    }
                    if let Some(s) = space_y {
                        let id = s.space_id;
                        if let Err(e) = manager.set_space_state(&id, &s.into()).await {
                            return Outcome::Err(format!("persisting space state failed: {e}"));
                        }
                    }
                    Outcome::Ok { events: events.iter().map(event_name).collect() }
                }
                Err(e) => Outcome::Err(e.to_string().replace('\n', " ")),
            }
        };
        match AssertUnwindSafe(fut).catch_unwind().await {
            Ok(o) => o,
            Err(payload) => {
                let (loc, msg) = take_panic_info().unwrap_or_default();
                if loc.is_empty() || loc.contains("/verif/") {
                    resume_unwind(payload);
                }
                Outcome::Panic { file: panic_site(&loc), msg }
            }
        }
    }

    async fn snapshot(&mut self, p: usize) -> Option<Snap> {
        if let Some(s) = &self.peers[p].snap {
            return Some(s.clone());
        }
        let fut = self.snapshot_inner(p);
        match AssertUnwindSafe(fut).catch_unwind().await {
            Ok(s) => {
                self.peers[p].snap = Some(s.clone());
                Some(s)
            }
            Err(payload) => {
                let (loc, msg) = take_panic_info().unwrap_or_default();
                if loc.is_empty() || loc.contains("/verif/") {
                    resume_unwind(payload);
                }
                // A query panicked: outside this property (it is about `process`), but the peer is
                // unusable from here on.
                ev!("query API of P{p} panicked at {loc}: {}", shorten(msg));
                ctx::probe("query_panicked");
                self.peers[p].dead = true;
                None
            }
        }
    }

    async fn snapshot_inner(&self, p: usize) -> Snap {
        let peer = &self.peers[p];
        let mut parts = BTreeMap::new();
        let mut text = BTreeMap::new();

        let mut ids = <TestSpacesStore as SpacesStore<CborValue>>::space_ids(&peer.sstore).await.expect("space_ids");
        ids.sort();
        text.insert("spaces".into(), ids.iter().map(|i| self.space_label(i)).collect::<Vec<_>>().join(","));

        // Stored state, exactly what the manager reads back before the next message.
        {
            let permit = peer.sstore.begin().await.expect("begin");
            let g = <TestSpacesStore as GroupsStore<AuthMessage<()>, ()>>::get_groups_state_tx(&peer.sstore, Hash::digest(GLOBAL_GROUPS_CONTEXT_ID)).await.expect("get_groups_state_tx");
            if let Some(g) = g {
                let bytes = encode_cbor(&g).expect("encode groups state");
                let v: CborValue = ciborium::from_reader(&bytes[..]).expect("decode groups state");
                field_hashes("groups", &v, &mut parts);
            }
            for id in &ids {
                let v = <TestSpacesStore as SpacesStore<CborValue>>::get_space_state_tx(&peer.sstore, id).await.expect("get_space_state_tx");
                if let Some(v) = v {
                    field_hashes(&format!("space {}", self.space_label(id)), &v, &mut parts);
                }
            }
            peer.sstore.commit(permit).await.expect("commit");
        }

        Snap { parts, text }
    }

    async fn safe_view(&self, p: usize) -> String {
        match AssertUnwindSafe(self.public_view(p)).catch_unwind().await {
            Ok(v) => v.chars().take(400).collect::<String>(),
            Err(payload) => {
                let (loc, msg) = take_panic_info().unwrap_or_default();
                if loc.is_empty() || loc.contains("/verif/") {
                    resume_unwind(payload);
                }
                ctx::probe("query_panicked");
                format!("query API panicked at {loc}: {} (queries are not part of C39)", shorten(msg))
            }
        }
    }

    /// What the public query API (`Manager::space`, `Space::members`, `Manager::group`,
    /// `Group::members`, `spaces_repair_required`) shows. It is a function of the stored state the
    /// snapshot hashes, so it is only computed for explanations (≈ 50 store round trips).
    async fn public_view(&self, p: usize) -> String {
        let peer = &self.peers[p];
        let mut out: Vec<String> = vec![];
        let fmt_members = |m: Vec<(VerifyingKey, Acc)>| m.iter().map(|(id, a)| format!("{}:{}", self.actor_label(id), access_name(a))).collect::<Vec<_>>().join(",");
        for id in &self.spaces {
            let label = self.space_label(id);
            match peer.tp.manager.space(*id).await {
                Ok(Some(space)) => {
                    let m = match space.members().await {
                        Ok(m) => fmt_members(m),
                        Err(e) => format!("Err({})", shorten(e.to_string())),
                    };
                    let g = self.space_group.get(id).map(|g| self.actor_label(g)).unwrap_or_else(|| "?".into());
                    out.push(format!("space {label} (group {g}) members [{m}]"));
                }
                Ok(None) => {}
                Err(e) => out.push(format!("space {label}: Err({})", shorten(e.to_string()))),
            }
        }
        for (gi, gid) in self.groups.iter().enumerate() {
            match peer.tp.manager.group(*gid).await {
                Ok(Some(group)) => {
                    let m = match group.members().await {
                        Ok(m) => fmt_members(m),
                        Err(e) => format!("Err({})", shorten(e.to_string())),
                    };
                    out.push(format!("group g{gi} members [{m}]"));
                }
                Ok(None) => {}
                Err(e) => out.push(format!("group g{gi}: Err({})", shorten(e.to_string()))),
            }
        }
        match peer.tp.manager.spaces_repair_required().await {
            Ok(mut r) => {
                r.sort();
                if !r.is_empty() {
                    out.push(format!("repair required [{}]", r.iter().map(|i| self.space_label(i)).collect::<Vec<_>>().join(",")));
                }
            }
            Err(e) => out.push(format!("repair_required: Err({})", shorten(e.to_string()))),
        }
        if out.is_empty() { "no spaces, no groups".into() } else { out.join(" | ") }
    }

    /// First delivery of message `mi` to peer `p`.
    async fn deliver(&mut self, p: usize, mi: usize) {
        let op = self.msgs[mi].op.clone();
        let kind = self.msgs[mi].kind;
        let byz = self.msgs[mi].byz;
        self.peers[p].inbox.retain(|i| *i != mi);
        self.peers[p].have.insert(op.hash);
        self.peers[p].snap = None;
        if let Err(e) = self.peers[p].tp.persist_operation(&op).await {
            ev!("P{p} could not persist {}: {}", self.msg_label(mi), shorten(e.to_string()));
        }
        let out = self.process_at(p, &op).await;
        match out {
            Outcome::Ok { events } => {
                ev!("deliver {} -> P{p}: Ok events=[{}]", self.msg_label(mi), events.join(","));
                self.peers[p].first_ok.insert(mi, true);
                if byz {
                    ctx::probe("forged_message_accepted");
                }
            }
            Outcome::Err(e) => {
                ev!("deliver {} -> P{p}: Err({})", self.msg_label(mi), self.scrub(e));
                self.peers[p].first_ok.insert(mi, false);
                ctx::probe(if byz { "forged_message_rejected" } else { "honest_message_rejected" });
            }
            Outcome::Panic { file, msg } => self.report_panic(p, mi, kind, byz, false, file, msg),
        }
    }

    fn report_panic(&mut self, p: usize, mi: usize, kind: &'static str, byz: bool, again: bool, file: String, msg: String) {
        let what = panic_phrase(&msg);
        ev!("deliver {} -> P{p}{}: PANIC at {file}: {}", self.msg_label(mi), if again { " (again)" } else { "" }, shorten(msg.clone()));
        // Attribution = the code site that gave up (file + the value-free part of its message). The
        // same `expect` reached through different message kinds is one root cause, one signature.
        let site = format!("{file}{}", if what.is_empty() { String::new() } else { format!(" ({what})") });
        violation(
            "panic",
            &site,
            format!("Manager::process panicked on a {}{kind} message{} at {file}: {}", if byz { "forged " } else { "" }, if again { " processed a second time" } else { "" }, shorten(msg)),
        );
        // `process` itself persists nothing (the caller does, after it returned), locks are
        // released by unwinding and a dropped transaction permit rolls back: the peer stays usable,
        // so that one run can meet several different panics.
        self.peers[p].snap = None;
    }

    /// Fault `duplicate`: process a message this peer already has a second time.
    async fn redeliver(&mut self, p: usize, mi: usize) {
        let op = self.msgs[mi].op.clone();
        let kind = self.msgs[mi].kind;
        let byz = self.msgs[mi].byz;
        let first_ok = self.peers[p].first_ok.get(&mi).copied();
        let own = self.msgs[mi].author == p;
        self.peers[p].redelivered.insert(mi);
        let Some(before) = self.snapshot(p).await else { return };
        ctx::fault("duplicate");
        self.peers[p].snap = None;
        let out = self.process_at(p, &op).await;
        let tag = if own { "own " } else { "" };
        match out {
            Outcome::Panic { file, msg } => self.report_panic(p, mi, kind, byz, true, file, msg),
            Outcome::Err(e) => {
                ev!("re-deliver {tag}{} -> P{p}: Err({})", self.msg_label(mi), self.scrub(e));
                ctx::probe("redelivery_err");
                self.check_unchanged(p, mi, &before, first_ok, kind, &[]).await;
            }
            Outcome::Ok { events } => {
                ev!("re-deliver {tag}{} -> P{p}: Ok events=[{}]", self.msg_label(mi), events.join(","));
                self.check_unchanged(p, mi, &before, first_ok, kind, &events).await;
            }
        }
    }

    async fn check_unchanged(&mut self, p: usize, mi: usize, before: &Snap, first_ok: Option<bool>, _kind: &'static str, events: &[String]) {
        let kind = variant_name(&self.msgs[mi].op.header.extensions);
        let Some(after) = self.snapshot(p).await else { return };
        // The property speaks about processing "a second time": the first time has to have been a
        // processing, i.e. it returned Ok (or the peer created the message itself).
        let counted = first_ok == Some(true);
        if !counted {
            ctx::probe("redelivery_of_rejected_message");
        }
        let own = self.msgs[mi].author == p;
        let who = if own { "author" } else { "receiver" };
        if &after != before {
            let d = before.diff(&after);
            if counted {
                let view = self.safe_view(p).await;
                // Attribution: message kind, whether the peer is the message's author, and which
                // parts of the stored state moved (names only).
                let fields: BTreeSet<String> = before
                    .parts
                    .keys()
                    .chain(after.parts.keys())
                    .filter(|k| before.parts.get(*k) != after.parts.get(*k))
                    .map(|k| match k.strip_prefix("space ") {
                        Some(rest) => rest.split_once('.').map(|(_, f)| f.to_string()).unwrap_or_else(|| rest.to_string()),
                        None => k.clone(),
                    })
                    .collect();
                let fields = if fields.is_empty() { "set of spaces".to_string() } else { fields.into_iter().collect::<Vec<_>>().join("+") };
                let site = format!("{kind}/{who}: {fields}");
                violation("redelivery-changes-state", &site, format!("P{p} ({who}) processed {} a second time and its stored state changed in: {}; queries afterwards: {view}", self.msg_label(mi), shorten(d.join("; "))));
            } else {
                ev!("state changed on re-delivery of a message that was rejected the first time: {}", shorten(d.join("; ")));
            }
        }
        if !events.is_empty() && counted {
            violation("redelivery-emits-events", kind, format!("P{p} ({who}) processed {} a second time and got events [{}]", self.msg_label(mi), events.join(",")));
        }
        if counted && &after == before && events.is_empty() {
            ctx::probe("redelivery_was_noop");
        }
    }
}

/// Code site of a panic without line numbers and machine-specific directories. simcore's hook
/// reports "<file>:<line>" or, for a panic raised inside std / a dependency, "<file>:<line> in
/// <innermost p2panda symbol>".
fn panic_site(loc: &str) -> String {
    let (fileline, sym) = match loc.split_once(" in ") {
        Some((a, b)) => (a, Some(b.trim_end_matches(':').trim())),
        None => (loc, None),
    };
    let file = fileline.rsplit_once(':').map(|(f, _)| f).unwrap_or(fileline);
    let file = match file.split_once("/repo/") {
        Some((_, rest)) => rest,
        None => match file.split_once("registry/src/") {
            Some((_, rest)) => rest.split_once('/').map(|(_, r)| r).unwrap_or(rest),
            None => file,
        },
    };
    match sym {
        Some(s) if !s.is_empty() => format!("{file} in {s}"),
        _ => file.to_string(),
    }
}

/// A stable, value-free phrase from a panic message (or nothing).
fn panic_phrase(msg: &str) -> String {
    let first = msg.lines().next().unwrap_or("");
    let first = first.split(':').next().unwrap_or("").trim();
    if first.is_empty() || first.len() > 60 || first.chars().any(|c| c.is_ascii_digit()) {
        return String::new();
    }
    first.to_string()
}

// ------------------------------------------------------------------------------------------------
// Honest behaviour
// ------------------------------------------------------------------------------------------------

enum Local {
    Ok(Vec<TestOperation>),
    Err(String),
    Skip,
}

impl World {
    /// One local API call of peer `p`, drawn from the choice stream.
    async fn local_op(&mut self, p: usize) {
        let n = self.peers.len();
        // 0 = the call that most often has nothing to do (shrinks towards short histories).
        let what = *ctx::pick("op", &[10usize, 0, 1, 2, 3, 4, 5, 6, 7, 8, 9]);
        let others: Vec<usize> = (0..n).filter(|i| *i != p).collect();
        let manager = self.peers[p].tp.manager.clone();
        self.peers[p].snap = None;
        let ids: Vec<VerifyingKey> = self.peers.iter().map(|x| x.id).collect();
        let pid = |i: usize| ids[i];
        let mut desc = String::new();

        let fut = async {
            match what {
                // create a space
                0 | 1 => {
                    if self.spaces.len() >= 3 {
                        return Local::Skip;
                    }
                    let sid = Hash::digest(format!("space-{}", self.spaces.len()));
                    let mut members: Vec<(VerifyingKey, Acc)> = vec![];
                    for o in &others {
                        if ctx::chance("space.member", 1, 2) {
                            members.push((pid(*o), draw_access("space.access")));
                        }
                    }
                    if !self.groups.is_empty() && ctx::chance("space.group_member", 1, 4) {
                        let g = *ctx::pick("space.group", &self.groups);
                        members.push((g, draw_access("space.access")));
                    }
                    desc = format!("create_space(s{}, [{}])", self.spaces.len(), members.iter().map(|(m, a)| format!("{}:{}", self.actor_label(m), access_name(a))).collect::<Vec<_>>().join(","));
                    match manager.create_space_persisted(sid, &members).await {
                        Ok((_, msgs)) => Local::Ok(msgs),
                        Err(e) => Local::Err(e.to_string()),
                    }
                }
                // add to / remove from a space
                2 | 3 | 4 => {
                    if self.spaces.is_empty() {
                        return Local::Skip;
                    }
                    let sid = *ctx::pick("space.which", &self.spaces);
                    let space = match manager.space(sid).await {
                        Ok(Some(s)) => s,
                        _ => return Local::Skip,
                    };
                    let mut cands: Vec<VerifyingKey> = (0..n).map(pid).collect();
                    cands.extend(self.groups.iter().copied().filter(|g| self.space_group.get(&sid) != Some(g)));
                    let m = *ctx::pick("space.target", &cands);
                    if what == 4 {
                        desc = format!("{}.remove({})", self.space_label(&sid), self.actor_label(&m));
                        match space.remove_persisted(m).await {
                            Ok((a, b)) => Local::Ok(vec![a, b]),
                            Err(e) => Local::Err(e.to_string()),
                        }
                    } else {
                        let acc = draw_access("space.access");
                        desc = format!("{}.add({}, {})", self.space_label(&sid), self.actor_label(&m), access_name(&acc));
                        match space.add_persisted(m, acc).await {
                            Ok((a, b)) => Local::Ok(vec![a, b]),
                            Err(e) => Local::Err(e.to_string()),
                        }
                    }
                }
                // publish application data
                5 | 6 => {
                    if self.spaces.is_empty() {
                        return Local::Skip;
                    }
                    let sid = *ctx::pick("space.which", &self.spaces);
                    let space = match manager.space(sid).await {
                        Ok(Some(s)) => s,
                        _ => return Local::Skip,
                    };
                    let len = ctx::choose("app.len", 24);
                    let payload: Vec<u8> = (0..len).map(|i| (i as u8).wrapping_mul(7).wrapping_add(p as u8)).collect();
                    desc = format!("{}.publish({} bytes)", self.space_label(&sid), len);
                    match space.publish_persisted(&payload).await {
                        Ok(m) => Local::Ok(vec![m]),
                        Err(e) => Local::Err(e.to_string()),
                    }
                }
                // create a group
                7 => {
                    if self.groups.len() >= 4 {
                        return Local::Skip;
                    }
                    let mut members: Vec<(VerifyingKey, Acc)> = vec![];
                    if !ctx::chance("group.without_me", 1, 6) {
                        members.push((pid(p), Access::manage()));
                    }
                    for o in &others {
                        if ctx::chance("group.member", 1, 2) {
                            members.push((pid(*o), draw_access("group.access")));
                        }
                    }
                    desc = format!("create_group([{}])", members.iter().map(|(m, a)| format!("{}:{}", self.actor_label(m), access_name(a))).collect::<Vec<_>>().join(","));
                    match manager.create_group_persisted(&members).await {
                        Ok((_, m)) => Local::Ok(vec![m]),
                        Err(e) => Local::Err(e.to_string()),
                    }
                }
                // add to / remove from a group
                8 => {
                    if self.groups.is_empty() {
                        return Local::Skip;
                    }
                    let gid = *ctx::pick("group.which", &self.groups);
                    let group = match manager.group(gid).await {
                        Ok(Some(g)) => g,
                        _ => return Local::Skip,
                    };
                    let mut cands: Vec<VerifyingKey> = (0..n).map(pid).collect();
                    cands.extend(self.groups.iter().copied().filter(|g| *g != gid));
                    let m = *ctx::pick("group.target", &cands);
                    if ctx::chance("group.remove", 1, 3) {
                        desc = format!("{}.remove({})", self.actor_label(&gid), self.actor_label(&m));
                        match group.remove_persisted(m).await {
                            Ok(a) => Local::Ok(vec![a]),
                            Err(e) => Local::Err(e.to_string()),
                        }
                    } else {
                        let acc = draw_access("group.access");
                        desc = format!("{}.add({}, {})", self.actor_label(&gid), self.actor_label(&m), access_name(&acc));
                        match group.add_persisted(m, acc).await {
                            Ok(a) => Local::Ok(vec![a]),
                            Err(e) => Local::Err(e.to_string()),
                        }
                    }
                }
                // (re-)publish the key bundle, possibly after the clock moved into the rotation window
                9 => {
                    if ctx::chance("clock.jump", 1, 3) {
                        let days = *ctx::pick("clock.days", &[1u64, 20, 61, 95]);
                        libc_seams::advance_wall_us(days * 86_400 * 1_000_000);
                        ctx::fault("clock.jump_forward");
                        desc = format!("clock +{days}d; ");
                    }
                    desc.push_str("key_bundle_message()");
                    match manager.key_bundle_message().await {
                        Ok(m) => Local::Ok(vec![m]),
                        Err(e) => Local::Err(e.to_string()),
                    }
                }
                // repair out-of-sync spaces
                _ => {
                    let ids = match manager.spaces_repair_required().await {
                        Ok(i) => i,
                        Err(e) => return Local::Err(e.to_string()),
                    };
                    if ids.is_empty() {
                        return Local::Skip;
                    }
                    desc = format!("repair_spaces([{}])", ids.iter().map(|i| self.space_label(i)).collect::<Vec<_>>().join(","));
                    match manager.repair_spaces_persisted(&ids).await {
                        Ok(m) => Local::Ok(m),
                        Err(e) => Local::Err(e.to_string()),
                    }
                }
            }
        };
        let r = AssertUnwindSafe(fut).catch_unwind().await;
        match r {
            Ok(Local::Skip) => {}
            Ok(Local::Ok(msgs)) => {
                if desc.starts_with("repair") {
                    ctx::probe("space_repaired");
                }
                let mut labels = vec![];
                for m in msgs {
                    let i = self.publish(p, m, false);
                    labels.push(format!("m{i}:{}", self.msgs[i].kind));
                }
                ev!("P{p} {desc} -> [{}]", labels.join(" "));
            }
            Ok(Local::Err(e)) => {
                ev!("P{p} {desc} failed: {}", shorten(self.scrub(e)));
                ctx::probe("local_op_failed");
            }
            Err(payload) => {
                let (loc, msg) = take_panic_info().unwrap_or_default();
                if loc.is_empty() || loc.contains("/verif/") {
                    resume_unwind(payload);
                }
                // Not `Manager::process`: outside this property. Recorded, peer retired.
                ev!("P{p} {desc} PANICKED at {loc}: {} (local API, not part of C39)", shorten(msg));
                ctx::probe("local_api_panicked");
                self.peers[p].dead = true;
            }
        }
    }
}

// ------------------------------------------------------------------------------------------------
// Byzantine behaviour
// ------------------------------------------------------------------------------------------------

impl World {
    fn hashes_where(&self, p: usize, f: impl Fn(&MsgRec) -> bool) -> Vec<Hash> {
        self.msgs.iter().filter(|m| self.peers[p].have.contains(&m.op.hash) && f(m)).map(|m| m.op.hash).collect()
    }

    /// Tips (within what peer `p` has) of the messages selected by `f`.
    fn heads_where(&self, p: usize, f: impl Fn(&MsgRec) -> bool) -> Vec<Hash> {
        let sel: Vec<&MsgRec> = self.msgs.iter().filter(|m| self.peers[p].have.contains(&m.op.hash) && f(m)).collect();
        let referenced: BTreeSet<Hash> = sel.iter().flat_map(|m| m.deps.iter().copied()).collect();
        sel.iter().map(|m| m.op.hash).filter(|h| !referenced.contains(h)).collect()
    }

    fn draw_deps(&self, p: usize, heads: Vec<Hash>) -> (Vec<Hash>, &'static str) {
        match ctx::choose("byz.deps", 5) {
            0 => (heads, "heads"),
            1 => (vec![], "none"),
            2 => {
                let all = self.hashes_where(p, |_| true);
                let mut d = vec![];
                for h in all {
                    if ctx::chance("byz.dep", 1, 4) {
                        d.push(h);
                    }
                }
                (d, "random-known-messages")
            }
            3 => {
                let all = self.hashes_where(p, |_| true);
                if all.is_empty() { (vec![], "none") } else { (vec![*ctx::pick("byz.dep1", &all)], "one-old-message") }
            }
            _ => {
                let mut d = heads.clone();
                if let Some(h) = heads.first() {
                    d.push(*h);
                }
                (d, "heads-with-duplicate")
            }
        }
    }

    fn draw_actor(&self, label: &'static str) -> VerifyingKey {
        let mut c: Vec<VerifyingKey> = self.peers.iter().map(|p| p.id).collect();
        c.extend(self.groups.iter().copied());
        c.push(signing_key(900).verifying_key()); // nobody
        *ctx::pick(label, &c)
    }

    fn draw_member(&self, label: &'static str) -> GroupMember<VerifyingKey> {
        let id = self.draw_actor(label);
        // The claimed type need not match what the id really is.
        if ctx::chance("byz.member.as_group", 1, 3) { GroupMember::Group(id) } else { GroupMember::Individual(id) }
    }

    fn draw_space(&self) -> Hash {
        let mut c = self.spaces.clone();
        c.push(Hash::digest(b"no-such-space"));
        *ctx::pick("byz.space", &c)
    }

    async fn craft(&mut self, p: usize) -> Option<(Args, String)> {
        let variant = ctx::choose("byz.variant", 5);
        Some(match variant {
            0 => {
                // SpaceUpdate: exists in the enum, no honest code path creates it.
                let space_id = self.draw_space();
                let group_id = match self.space_group.get(&space_id) {
                    Some(g) if !ctx::chance("byz.wrong_group", 1, 3) => *g,
                    _ => self.draw_actor("byz.group"),
                };
                let heads = self.heads_where(p, |m| matches!(&m.op.header.extensions, SpacesArgs::SpaceMembership { space_id: s, .. } | SpacesArgs::Application { space_id: s, .. } if *s == space_id));
                let (space_dependencies, how) = self.draw_deps(p, heads);
                let d = format!("SpaceUpdate {{ space {}, group {}, deps {how} }}", self.space_label(&space_id), self.actor_label(&group_id));
                (SpacesArgs::SpaceUpdate { space_id, group_id, space_dependencies }, d)
            }
            1 if ctx::chance("byz.auth.plausible", 1, 2) => {
                // An action the forger is entitled to: it manages the group, the target is a member
                // (or, for Add, possibly not yet), the dependencies are the forger's auth heads.
                // Promote / Demote are valid p2panda-auth actions no spaces API ever emits.
                let me = self.peers[p].id;
                let manager = self.peers[p].tp.manager.clone();
                let groups = self.groups.clone();
                let probe = async {
                    let mut managed: Vec<(VerifyingKey, Vec<VerifyingKey>)> = vec![];
                    for gid in groups {
                        if let Ok(Some(g)) = manager.group(gid).await {
                            if let Ok(m) = g.members().await {
                                if m.iter().any(|(id, a)| *id == me && a.is_manage()) {
                                    managed.push((gid, m.iter().map(|x| x.0).collect()));
                                }
                            }
                        }
                    }
                    managed
                };
                let managed = match AssertUnwindSafe(probe).catch_unwind().await {
                    Ok(m) => m,
                    Err(_) => {
                        let _ = take_panic_info();
                        ctx::probe("query_panicked");
                        vec![]
                    }
                };
                if managed.is_empty() {
                    return None;
                }
                let (group_id, members) = ctx::pick("byz.managed", &managed).clone();
                let others: Vec<VerifyingKey> = members.iter().copied().filter(|m| *m != me).collect();
                let target = if others.is_empty() { me } else { *ctx::pick("byz.target", &others) };
                let member = GroupMember::Individual(target);
                let action = match ctx::choose("byz.entitled.action", 4) {
                    0 => GroupAction::Promote { member, access: draw_access("byz.access") },
                    1 => GroupAction::Demote { member, access: draw_access("byz.access") },
                    2 => GroupAction::Remove { member },
                    _ => GroupAction::Add { member: GroupMember::Individual(self.draw_actor("byz.member")), access: draw_access("byz.access") },
                };
                let auth_dependencies = self.heads_where(p, |m| matches!(&m.op.header.extensions, SpacesArgs::Auth { .. }));
                let a = match &action {
                    GroupAction::Add { member, access } => format!("Add({}, {})", self.actor_label(&member.id()), access_name(access)),
                    GroupAction::Remove { member } => format!("Remove({})", self.actor_label(&member.id())),
                    GroupAction::Promote { member, access } => format!("Promote({}, {})", self.actor_label(&member.id()), access_name(access)),
                    GroupAction::Demote { member, access } => format!("Demote({}, {})", self.actor_label(&member.id()), access_name(access)),
                    GroupAction::Create { .. } => unreachable!(),
                };
                ctx::probe("forged_entitled_auth_action");
                let d = format!("Auth {{ group {} (managed by the forger), {a}, deps heads }}", self.actor_label(&group_id));
                (SpacesArgs::Auth { group_id, group_action: action, auth_dependencies }, d)
            }
            1 => {
                let group_id = self.draw_actor("byz.group");
                let action = match ctx::choose("byz.action", 5) {
                    0 => GroupAction::Add { member: self.draw_member("byz.member"), access: draw_access("byz.access") },
                    1 => GroupAction::Remove { member: self.draw_member("byz.member") },
                    2 => GroupAction::Promote { member: self.draw_member("byz.member"), access: draw_access("byz.access") },
                    3 => GroupAction::Demote { member: self.draw_member("byz.member"), access: draw_access("byz.access") },
                    _ => {
                        let k = ctx::choose("byz.create.n", 4);
                        let mut initial_members = vec![];
                        for _ in 0..k {
                            initial_members.push((self.draw_member("byz.member"), draw_access("byz.access")));
                        }
                        GroupAction::Create { initial_members }
                    }
                };
                let heads = self.heads_where(p, |m| matches!(&m.op.header.extensions, SpacesArgs::Auth { .. }));
                let (auth_dependencies, how) = self.draw_deps(p, heads);
                let a = match &action {
                    GroupAction::Add { member, access } => format!("Add({}{}, {})", if member.is_group() { "group " } else { "" }, self.actor_label(&member.id()), access_name(access)),
                    GroupAction::Remove { member } => format!("Remove({}{})", if member.is_group() { "group " } else { "" }, self.actor_label(&member.id())),
                    GroupAction::Promote { member, access } => format!("Promote({}, {})", self.actor_label(&member.id()), access_name(access)),
                    GroupAction::Demote { member, access } => format!("Demote({}, {})", self.actor_label(&member.id()), access_name(access)),
                    GroupAction::Create { initial_members } => format!("Create([{}])", initial_members.iter().map(|(m, a)| format!("{}{}:{}", if m.is_group() { "group " } else { "" }, self.actor_label(&m.id()), access_name(a))).collect::<Vec<_>>().join(",")),
                };
                let d = format!("Auth {{ group {}, {a}, deps {how} }}", self.actor_label(&group_id));
                (SpacesArgs::Auth { group_id, group_action: action, auth_dependencies }, d)
            }
            2 => {
                let space_id = self.draw_space();
                let group_id = match self.space_group.get(&space_id) {
                    Some(g) if !ctx::chance("byz.wrong_group", 1, 3) => *g,
                    _ => self.draw_actor("byz.group"),
                };
                let heads = self.heads_where(p, |m| matches!(&m.op.header.extensions, SpacesArgs::SpaceMembership { space_id: s, .. } | SpacesArgs::Application { space_id: s, .. } if *s == space_id));
                let (space_dependencies, how) = self.draw_deps(p, heads);
                // The pointer: an auth message, or something that is not one.
                let auths = self.hashes_where(p, |m| matches!(&m.op.header.extensions, SpacesArgs::Auth { .. }));
                let non_auths = self.hashes_where(p, |m| !matches!(&m.op.header.extensions, SpacesArgs::Auth { .. }));
                let (auth_message_id, ptr) = if !auths.is_empty() && !(ctx::chance("byz.ptr.non_auth", 1, 4) && !non_auths.is_empty()) {
                    let h = *ctx::pick("byz.ptr", &auths);
                    (h, format!("auth m{}", self.by_hash[&h]))
                } else if !non_auths.is_empty() {
                    let h = *ctx::pick("byz.ptr", &non_auths);
                    (h, format!("non-auth m{}", self.by_hash[&h]))
                } else {
                    return None;
                };
                // Direct messages: none, or lifted from somebody else's membership message.
                let mut direct_messages = vec![];
                let mut dm = "no";
                let donors: Vec<&MsgRec> = self.msgs.iter().filter(|m| matches!(&m.op.header.extensions, SpacesArgs::SpaceMembership { direct_messages, .. } if !direct_messages.is_empty())).collect();
                if !donors.is_empty() && ctx::chance("byz.dm", 1, 2) {
                    let donor = *ctx::pick("byz.dm.donor", &donors);
                    if let SpacesArgs::SpaceMembership { direct_messages: d, .. } = &donor.op.header.extensions {
                        direct_messages = d.clone();
                        dm = "replayed";
                        if ctx::chance("byz.dm.retarget", 1, 2) {
                            let to = self.draw_actor("byz.dm.to");
                            for m in direct_messages.iter_mut() {
                                m.recipient = to;
                            }
                            dm = "replayed+retargeted";
                        }
                    }
                }
                let d = format!("SpaceMembership {{ space {}, group {}, deps {how}, pointer {ptr}, {dm} direct messages }}", self.space_label(&space_id), self.actor_label(&group_id));
                (SpacesArgs::SpaceMembership { space_id, group_id, space_dependencies, auth_message_id, direct_messages }, d)
            }
            3 => {
                let space_id = self.draw_space();
                let heads = self.heads_where(p, |m| matches!(&m.op.header.extensions, SpacesArgs::SpaceMembership { space_id: s, .. } | SpacesArgs::Application { space_id: s, .. } if *s == space_id));
                let (space_dependencies, how) = self.draw_deps(p, heads);
                let real: Vec<&MsgRec> = self.msgs.iter().filter(|m| matches!(&m.op.header.extensions, SpacesArgs::Application { .. })).collect();
                let (group_secret_id, nonce, ciphertext, what) = if !real.is_empty() && ctx::chance("byz.app.replay", 1, 2) {
                    let donor = *ctx::pick("byz.app.donor", &real);
                    let SpacesArgs::Application { group_secret_id, nonce, ciphertext, .. } = &donor.op.header.extensions else { unreachable!() };
                    if ctx::chance("byz.app.garble", 1, 2) {
                        let mut c = ciphertext.clone();
                        if let Some(b) = c.first_mut() {
                            *b ^= 0x55;
                        }
                        (*group_secret_id, *nonce, c, "real secret id, garbled ciphertext")
                    } else {
                        (*group_secret_id, *nonce, ciphertext.clone(), "replayed ciphertext")
                    }
                } else {
                    let len = ctx::choose("byz.app.len", 40);
                    let seed = ctx::bits("byz.app.bytes");
                    let mut st = seed;
                    let c: Vec<u8> = (0..len).map(|_| splitmix64(&mut st) as u8).collect();
                    (rand_bytes::<32>("byz.app.secret"), rand_bytes::<24>("byz.app.nonce"), c, "unknown secret id, random ciphertext")
                };
                let d = format!("Application {{ space {}, deps {how}, {what} }}", self.space_label(&space_id));
                (SpacesArgs::Application { space_id, space_dependencies, group_secret_id, nonce, ciphertext }, d)
            }
            _ => {
                // Key bundles.
                let creds = self.peers[p].tp.credentials.clone();
                let rng = Rng::from_seed(rand_bytes::<32>("byz.kb.rng"));
                let now = libc_seams::wall_us() / 1_000_000;
                let mk = |lifetime: Lifetime, good_signature: bool| -> Option<LongTermKeyBundle> {
                    let prekey_secret = SecretKey::from_rng(&rng).ok()?;
                    let prekey = PreKey::new(prekey_secret.verifying_key().ok()?, lifetime);
                    let signed = if good_signature {
                        prekey.clone()
                    } else {
                        PreKey::new(SecretKey::from_rng(&rng).ok()?.verifying_key().ok()?, lifetime)
                    };
                    let signature = signed.sign(&creds.identity_secret(), &rng).ok()?;
                    Some(LongTermKeyBundle::new(creds.identity_secret().verifying_key().ok()?, prekey, signature))
                };
                let (kb, what) = match ctx::choose("byz.kb", 5) {
                    0 => (mk(Lifetime::from_range(now - 3600, now + 90 * 86_400), true)?, "fresh valid bundle"),
                    1 => (mk(Lifetime::from_range(now - 3600, now + 90 * 86_400), false)?, "signature over a different pre-key"),
                    2 => (mk(Lifetime::from_range(now - 7200, now - 3600), true)?, "expired lifetime"),
                    3 => (mk(Lifetime::from_range(now + 3600, now + 7200), true)?, "lifetime not yet valid"),
                    _ => {
                        // Somebody else's bundle under the forger's authorship.
                        let donors: Vec<&MsgRec> = self.msgs.iter().filter(|m| m.author != p && matches!(&m.op.header.extensions, SpacesArgs::KeyBundle { .. })).collect();
                        if donors.is_empty() {
                            return None;
                        }
                        let donor = *ctx::pick("byz.kb.donor", &donors);
                        let SpacesArgs::KeyBundle { key_bundle } = &donor.op.header.extensions else { unreachable!() };
                        (key_bundle.clone(), "another member's bundle")
                    }
                };
                (SpacesArgs::KeyBundle { key_bundle: kb }, format!("KeyBundle {{ {what} }}"))
            }
        })
    }

    async fn byzantine_step(&mut self, p: usize) {
        let Some((args, desc)) = self.craft(p).await else { return };
        let forge = self.peers[p].forge.clone();
        match forge.forge(args).await {
            Ok(op) => {
                ctx::fault("byzantine_op");
                let i = self.publish(p, op, true);
                ev!("P{p} FORGES m{i}: {desc}");
            }
            Err(e) => {
                ev!("P{p} could not forge {desc}: {}", shorten(e.to_string()));
            }
        }
    }
}

// ------------------------------------------------------------------------------------------------
// The run
// ------------------------------------------------------------------------------------------------

async fn scenario(mode: u32) {
    let seed = ctx::seed();
    let n = 2 + ctx::choose("peers", 3);
    let mut peers = Vec::new();
    for i in 0..n {
        let rng = Rng::from_seed(key_bytes(seed, 500 + i as u64));
        let credentials = Credentials::from_rng(&rng).expect("credentials from seeded rng");
        let tp = TestPeer::new_with_config(i as u8, credentials.clone(), &Config::default(), rng).await;
        let sstore = TestSpacesStore::new(tp.store.clone());
        let forge = TestForge::new(tp.store.clone(), credentials.signing_key());
        let id = tp.manager.id();
        peers.push(Peer { tp, sstore, forge, id, have: BTreeSet::new(), first_ok: BTreeMap::new(), inbox: vec![], redelivered: BTreeSet::new(), snap: None, dead: false });
    }
    let byz = if mode == 2 { Some(n - 1) } else { None };
    let mut w = World { peers, msgs: vec![], by_hash: BTreeMap::new(), spaces: vec![], groups: vec![], space_group: BTreeMap::new() };
    ev!("{} peers{}", n, byz.map(|b| format!(", P{b} also forges messages")).unwrap_or_default());

    // Everybody announces a key bundle; unless drawn otherwise these reach everyone first (the
    // crate's own tests register all members up front).
    let lazy_bundles = ctx::chance("bundles.lazy", 1, 4);
    for p in 0..n {
        match w.peers[p].tp.manager.key_bundle_message().await {
            Ok(m) => {
                let i = w.publish(p, m, false);
                ev!("P{p} key_bundle_message() -> [m{i}:KeyBundle]");
            }
            Err(e) => ev!("P{p} key_bundle_message() failed: {}", shorten(e.to_string())),
        }
    }
    if !lazy_bundles {
        for p in 0..n {
            for mi in w.deliverable(p) {
                w.deliver(p, mi).await;
            }
        }
    } else {
        ev!("key bundles travel like every other message");
    }

    let steps = ctx::range("steps", 3, 26);
    for _ in 0..steps {
        let alive: Vec<usize> = (0..n).filter(|p| !w.peers[*p].dead).collect();
        if alive.is_empty() {
            break;
        }
        // 0 = local operation, 1/2 = delivery, 3 = duplicate, 4 = forge
        let cats: &[usize] = match mode {
            0 => &[1, 0, 2, 0],
            1 => &[1, 0, 2, 3, 3, 0],
            _ => &[1, 0, 4, 2, 3, 4, 0],
        };
        let cat = *ctx::pick("step", cats);
        match cat {
            0 => {
                let p = *ctx::pick("actor", &alive);
                w.local_op(p).await;
            }
            1 | 2 => {
                let cands: Vec<(usize, usize)> = alive.iter().flat_map(|p| w.deliverable(*p).into_iter().map(move |m| (*p, m))).collect();
                if cands.is_empty() {
                    let p = *ctx::pick("actor", &alive);
                    w.local_op(p).await;
                } else {
                    let (p, mi) = *ctx::pick("deliver", &cands);
                    w.deliver(p, mi).await;
                }
            }
            3 => {
                let cands: Vec<(usize, usize)> = alive.iter().flat_map(|p| w.peers[*p].first_ok.keys().filter(|h| !w.peers[*p].redelivered.contains(h)).map(|h| (*p, *h)).collect::<Vec<_>>()).collect();
                if !cands.is_empty() {
                    let (p, mi) = *ctx::pick("duplicate", &cands);
                    w.redeliver(p, mi).await;
                }
            }
            _ => {
                if let Some(b) = byz {
                    if !w.peers[b].dead {
                        w.byzantine_step(b).await;
                    }
                }
            }
        }
    }

    // Drain: everything that can be delivered is delivered (random order).
    let mut guard = 0;
    loop {
        let cands: Vec<(usize, usize)> = (0..n).flat_map(|p| w.deliverable(p).into_iter().map(move |m| (p, m))).collect();
        if cands.is_empty() || guard > 400 {
            break;
        }
        guard += 1;
        let (p, mi) = *ctx::pick("drain", &cands);
        w.deliver(p, mi).await;
    }
    let stuck: usize = w.peers.iter().filter(|p| !p.dead).map(|p| p.inbox.len()).sum();
    if stuck > 0 {
        ev!("{stuck} deliveries never became causally ready (dependencies on messages the receiver never got)");
        ctx::probe("message_never_ready");
    }

    // Every processed message once more, at this later point (bounded).
    if mode >= 1 {
        let mut cands: Vec<(usize, usize)> = (0..n).filter(|p| !w.peers[*p].dead).flat_map(|p| w.peers[p].first_ok.keys().filter(|h| !w.peers[p].redelivered.contains(h)).map(|h| (p, *h)).collect::<Vec<_>>()).collect();
        ctx::shuffle("final.duplicates", &mut cands);
        // Nearly always; a zeroed choice stream (shrinking) skips this tail.
        let k = if ctx::chance("final.duplicates.on", 9, 10) { 32 } else { 0 };
        for (p, mi) in cands.into_iter().take(k) {
            if !w.peers[p].dead {
                w.redeliver(p, mi).await;
            }
        }
    }

    // Summary.
    let mut kinds: BTreeMap<&'static str, usize> = BTreeMap::new();
    for m in &w.msgs {
        *kinds.entry(m.kind).or_insert(0) += 1;
    }
    ev!("messages: {}", kinds.iter().map(|(k, v)| format!("{k}×{v}")).collect::<Vec<_>>().join(" "));
    if kinds.len() >= 4 {
        ctx::mark_nontrivial();
    }
    if kinds.contains_key("Application") {
        ctx::probe("application_message_delivered");
    }
    for p in 0..n {
        if w.peers[p].dead {
            continue;
        }
        let v = w.safe_view(p).await;
        ev!("P{p} final: {v}");
    }
    for p in &w.peers {
        p.tp.store.pool().close().await;
    }
}

impl Property for C39Prop {
    fn id(&self) -> &'static str {
        "C39"
    }
    fn budget(&self, tier: Tier) -> Budget {
        match tier {
            Tier::Quick => Budget { runs: 2_700, wall_cap_s: 38 },
            Tier::Thorough => Budget { runs: 27_000, wall_cap_s: 340 },
        }
    }
    fn modes(&self) -> u32 {
        3
    }
    fn mode_name(&self, mode: u32) -> &'static str {
        match mode {
            0 => "honest-once",
            1 => "duplicates",
            _ => "byzantine+duplicates",
        }
    }
    fn rule(&self) -> &'static str {
        "one run = 2–4 real TestPeers, 3–26 scheduler steps drawn from {local API call (create space, add/remove space member, publish, create group, add/remove group member, key bundle (with clock jumps), repair), causally-ready delivery of one message to one peer, re-delivery of an already processed message, forged message of a drawn SpacesArgs variant with drawn field values}, then a drain of all ready deliveries and (duplicate modes) up to 32 further re-deliveries; non-trivial = at least 4 distinct message kinds occurred or a fault fired; distinct = distinct trace fingerprint"
    }
    fn components_real(&self) -> Vec<&'static str> {
        vec![
            "p2panda_spaces::manager::Manager::{process, create_space, create_group, key_bundle_message, spaces_repair_required, repair_spaces} and the test_utils *_persisted wrappers",
            "p2panda_spaces::space::Space (handle_membership_message, handle_application_message, add, remove, publish, repair), p2panda_spaces::group::Group, IdentityManager",
            "p2panda_auth GroupCrdt with StrongRemove resolver, p2panda_encryption data scheme (DCGKA, 2SM, key bundles) with seeded Rng",
            "p2panda_store SqliteSpacesStore / SqliteStore (spaces, groups, key registry, key secrets, operations) on in-memory SQLite",
            "p2panda_spaces::test_utils::{TestPeer, TestForge}",
        ]
    }
    fn components_stub(&self) -> Vec<&'static str> {
        vec![
            "network + causal orderer: the harness delivers a message to a peer once all hashes of SpacesArgs::dependencies() were delivered there (stands for p2panda-stream's orderer)",
            "application layer: persists the states returned by process exactly like test_utils::process_persisted",
            "wall clock: libc seam (key bundle lifetimes)",
        ]
    }
    fn expected_probes(&self) -> Vec<&'static str> {
        vec!["redelivery_was_noop", "redelivery_err", "application_message_delivered", "space_repaired", "forged_message_accepted", "forged_message_rejected", "honest_message_rejected", "local_op_failed"]
    }

    fn shrink_budget_s(&self, tier: Tier) -> u64 {
        // Runs are slow (≈ 0.1–0.3 s), so the default budget is small; raise it with
        // VERIF_SHRINK_S=<seconds> to get a shorter replay for a report.
        if let Some(s) = std::env::var("VERIF_SHRINK_S").ok().and_then(|s| s.parse().ok()) {
            return s;
        }
        match tier {
            Tier::Quick => 6,
            Tier::Thorough => 30,
        }
    }

    fn run(&self) {
        let mode = ctx::mode();
        stepexec::block_on(scenario(mode));
    }
}
