//! Store world: random command sequences issued to the real `SqliteStore` and to the reference model
//! `MemStore`, compared call by call (differential). Shared by C08 (log queries) and C09
//! (operation / topic / cursor collections); each reports only its own clauses.

use std::collections::BTreeMap;

use p2panda_core::{Cursor, Hash, Operation, SeqNum, Topic, VerifyingKey};
use p2panda_store::cursors::CursorStore;
use p2panda_store::logs::LogStore;
use p2panda_store::operations::OperationStore;
use p2panda_store::topics::TopicStore;
use p2panda_store::{SqliteStore, Transaction};
use simcore::{ctx, ev, stepexec};
use simworld::logworld::{LogIdT, LogWorld, Op, SimExt, WorldParams, op_label, short, short_key, topic};
use simworld::memstore::MemStore;
use simworld::populate::{sqlite_file, sqlite_memory};

#[derive(Clone, Copy, Debug, PartialEq, Eq)]
pub enum Which {
    C08,
    C09,
}

#[derive(Clone, Debug)]
pub struct StoreCfg {
    pub which: Which,
    pub file_db: bool,
    pub restarts: bool,
    pub max_cmds: usize,
}


fn viol(cfg: &StoreCfg, owner: Which, clause: &str, site: &str, detail: String) {
    if cfg.which == owner {
        simcore::violation(clause, site, detail);
    }
}

fn op_repr(o: &Option<Operation<SimExt>>) -> Option<(Hash, Vec<u8>, Option<Vec<u8>>)> {
    o.as_ref().map(|o| (o.hash, o.header.to_bytes(), o.body.as_ref().map(|b| b.to_bytes())))
}

fn res_str<T: std::fmt::Debug, E: std::fmt::Display>(r: &Result<T, E>) -> String {
    match r {
        Ok(v) => {
            let s = format!("Ok({v:?})");
            if s.len() > 160 { format!("{}…", &s[..160]) } else { s }
        }
        Err(e) => format!("Err({e})"),
    }
}

/// Compare a real and a model result; `norm` maps the Ok value to a comparable form.
fn cmp<T, U: PartialEq + std::fmt::Debug, E1: std::fmt::Display, E2: std::fmt::Display>(
    cfg: &StoreCfg,
    owner: Which,
    method: &'static str,
    call: &str,
    real: Result<T, E1>,
    model: Result<T, E2>,
    norm: impl Fn(T) -> U,
) {
    match (real, model) {
        (Ok(a), Ok(b)) => {
            let (a, b) = (norm(a), norm(b));
            if a != b {
                let sa = format!("{a:?}");
                let sb = format!("{b:?}");
                viol(cfg, owner, "result-differs-from-model", method, format!("{call}: sqlite={} model={}", &sa[..sa.len().min(300)], &sb[..sb.len().min(300)]));
            }
        }
        (Err(_), Err(_)) => {}
        (Ok(_), Err(e)) => viol(cfg, owner, "ok-where-model-says-invalid", method, format!("{call}: model error: {e}")),
        (Err(e), Ok(_)) => viol(cfg, owner, "error-where-model-succeeds", method, format!("{call}: sqlite error: {e}")),
    }
}

struct FileCleanup(Option<String>);
impl Drop for FileCleanup {
    fn drop(&mut self) {
        if let Some(path) = &self.0 {
            for suffix in ["", "-wal", "-shm", "-journal"] {
                let _ = std::fs::remove_file(format!("{path}{suffix}"));
            }
        }
    }
}

pub fn run_store(cfg: &StoreCfg) {
    let cfg = cfg.clone();
    stepexec::block_on(async move {
        let path = format!("/dev/shm/p2sim-store-{}-{:x}.sqlite", std::process::id(), ctx::seed());
        let store = if cfg.file_db {
            let _ = std::fs::remove_file(&path);
            sqlite_file(&path, 4).await
        } else {
            sqlite_memory().await
        };
        let _cleanup = FileCleanup(if cfg.file_db { Some(path.clone()) } else { None });
        run_cmds(&cfg, store, &path).await;
    });
}

async fn run_cmds(cfg: &StoreCfg, mut real: SqliteStore, path: &str) {
    let world = LogWorld::generate(&WorldParams { max_authors: 3, max_logs_per_author: 2, max_ops_per_log: 6, prune_num: 1, body_kinds: 4, min_ops_per_log: 0 });
    let ops: Vec<Op> = world.all_ops();
    let model = MemStore::new();
    let topics = [topic(0), topic(1)];
    let n_cmds = ctx::range("cmds", 1, cfg.max_cmds);
    ev!("world: {} ops in {} logs; {} commands; db={}", ops.len(), world.logs.len(), n_cmds, if cfg.file_db { "file(4 conns)" } else { "memory(1 conn)" });
    if ops.is_empty() {
        return;
    }
    let log_keys: Vec<(VerifyingKey, LogIdT)> = world.logs.iter().map(|l| (l.author, l.log_id)).collect();
    let authors: Vec<VerifyingKey> = world.keys.iter().map(|k| k.verifying_key()).collect();
    let seq_choices = |h: u32| -> Vec<Option<u32>> { vec![None, Some(0), Some(h), Some(h.saturating_sub(1)), Some(h + 1), Some(1), Some(2), Some(u32::MAX)] };
    let mut open_tx: Option<(<SqliteStore as Transaction>::Permit, <MemStore as Transaction>::Permit)> = None;
    let mut writes = 0;

    for i in 0..n_cmds {
        let in_tx = open_tx.is_some();
        let c = ctx::choose("cmd", 22);
        let op = ctx::pick("cmd.op", &ops).clone();
        let k = *ctx::pick("cmd.log", &log_keys);
        let lbl = op_label(&op);
        match c {
            // ---- transaction control ----
            0 | 1 => {
                if !in_tx {
                    let a = real.begin().await;
                    let b = model.begin().await;
                    ev!("[{i}] begin -> {}", a.as_ref().map(|_| "ok".to_string()).unwrap_or_else(|e| e.to_string()));
                    match (a, b) {
                        (Ok(a), Ok(b)) => open_tx = Some((a, b)),
                        (Err(e), _) => viol(cfg, Which::C09, "error-where-model-succeeds", "begin", e.to_string()),
                        _ => {}
                    }
                } else {
                    let (pa, pb) = open_tx.take().unwrap();
                    match ctx::choose("tx.end", 3) {
                        0 => {
                            let a = real.commit(pa).await;
                            let _ = model.commit(pb).await;
                            ev!("[{i}] commit -> {}", res_str(&a));
                            if let Err(e) = a {
                                viol(cfg, Which::C09, "error-where-model-succeeds", "commit", e.to_string());
                            }
                        }
                        1 => {
                            let a = real.rollback(pa).await;
                            let _ = model.rollback(pb).await;
                            ev!("[{i}] rollback -> {}", res_str(&a));
                            ctx::probe("rollback");
                        }
                        _ => {
                            drop(pa);
                            drop(pb);
                            ev!("[{i}] drop(permit)");
                            ctx::probe("permit_dropped");
                            // Wait until the spawned rollback released the semaphore.
                            for _ in 0..200 {
                                tokio::task::yield_now().await;
                            }
                            tokio::time::sleep(std::time::Duration::from_millis(2)).await;
                        }
                    }
                }
            }
            // ---- operation store ----
            2 | 3 | 4 => {
                let a = real.insert_operation(&op.hash, &op, &op.header.extensions.log_id).await;
                let b = model.insert_operation(&op.hash, &op, &op.header.extensions.log_id).await;
                ev!("[{i}] insert_operation({lbl}){} -> {}", if in_tx { "" } else { " (no tx)" }, res_str(&a));
                if a.is_ok() {
                    writes += 1;
                }
                cmp(cfg, Which::C09, "insert_operation", &lbl, a, b, |x| x);
            }
            5 => {
                let a = <SqliteStore as OperationStore<Operation<SimExt>, Hash>>::delete_operation(&real, &op.hash).await;
                let b = <MemStore as OperationStore<Operation<SimExt>, Hash>>::delete_operation(&model, &op.hash).await;
                ev!("[{i}] delete_operation({lbl}){} -> {}", if in_tx { "" } else { " (no tx)" }, res_str(&a));
                cmp(cfg, Which::C09, "delete_operation", &lbl, a, b, |x| x);
            }
            6 => {
                if in_tx {
                    // Pool-level write while a transaction is open: blocks on the 1-connection pool
                    // and runs into SQLITE_BUSY on a file database; not a legal usage.
                    continue;
                }
                let a = <SqliteStore as OperationStore<Operation<SimExt>, Hash>>::delete_operation_payload(&real, &op.hash).await;
                let b = <MemStore as OperationStore<Operation<SimExt>, Hash>>::delete_operation_payload(&model, &op.hash).await;
                ev!("[{i}] delete_operation_payload({lbl}) -> {}", res_str(&a));
                cmp(cfg, Which::C09, "delete_operation_payload", &lbl, a, b, |x| x);
            }
            7 => {
                let (a, b) = if in_tx {
                    (real.get_operation_tx(&op.hash).await, model.get_operation_tx(&op.hash).await)
                } else {
                    (real.get_operation(&op.hash).await, model.get_operation(&op.hash).await)
                };
                ev!("[{i}] get_operation{}({lbl}) -> {}", if in_tx { "_tx" } else { "" }, a.as_ref().map(|o: &Option<Operation<SimExt>>| o.is_some().to_string()).unwrap_or_else(|e| e.to_string()));
                cmp(cfg, Which::C09, "get_operation", &lbl, a, b, |x| op_repr(&x));
            }
            8 => {
                let (a, b) = if in_tx {
                    (<SqliteStore as OperationStore<Operation<SimExt>, Hash>>::has_operation_tx(&real, &op.hash).await, <MemStore as OperationStore<Operation<SimExt>, Hash>>::has_operation_tx(&model, &op.hash).await)
                } else {
                    (<SqliteStore as OperationStore<Operation<SimExt>, Hash>>::has_operation(&real, &op.hash).await, <MemStore as OperationStore<Operation<SimExt>, Hash>>::has_operation(&model, &op.hash).await)
                };
                ev!("[{i}] has_operation{}({lbl}) -> {}", if in_tx { "_tx" } else { "" }, res_str(&a));
                cmp(cfg, Which::C09, "has_operation", &lbl, a, b, |x| x);
            }
            9 => {
                // `_tx` method outside of a transaction must fail in both.
                if !in_tx {
                    let a = real.get_operation_tx(&op.hash).await;
                    let b = model.get_operation_tx(&op.hash).await;
                    ev!("[{i}] get_operation_tx({lbl}) without tx -> {}", a.as_ref().map(|_: &Option<Operation<SimExt>>| "Ok".to_string()).unwrap_or_else(|e| e.to_string()));
                    ctx::probe("tx_method_without_tx");
                    cmp(cfg, Which::C09, "get_operation_tx", &lbl, a, b, |x| op_repr(&x));
                }
            }
            // ---- log store ----
            10 | 11 => {
                let (a, b) = if in_tx {
                    (<SqliteStore as LogStore<Operation<SimExt>, VerifyingKey, LogIdT, SeqNum, Hash>>::get_latest_entry_tx(&real, &k.0, &k.1).await, <MemStore as LogStore<Operation<SimExt>, VerifyingKey, LogIdT, SeqNum, Hash>>::get_latest_entry_tx(&model, &k.0, &k.1).await)
                } else {
                    (<SqliteStore as LogStore<Operation<SimExt>, VerifyingKey, LogIdT, SeqNum, Hash>>::get_latest_entry(&real, &k.0, &k.1).await, <MemStore as LogStore<Operation<SimExt>, VerifyingKey, LogIdT, SeqNum, Hash>>::get_latest_entry(&model, &k.0, &k.1).await)
                };
                let call = format!("{}:{}", short_key(&k.0), k.1);
                ev!("[{i}] get_latest_entry{}({call}) -> {}", if in_tx { "_tx" } else { "" }, a.as_ref().map(|o| o.as_ref().map(|o| o.header.seq_num)).map(|s| format!("{s:?}")).unwrap_or_else(|e| e.to_string()));
                cmp(cfg, Which::C08, "get_latest_entry", &call, a, b, |x| op_repr(&x));
            }
            12 | 13 => {
                if in_tx && !cfg.file_db {
                    continue;
                }
                let author = *ctx::pick("heights.author", &authors);
                let mut logs: Vec<LogIdT> = vec![];
                let all_logs: Vec<LogIdT> = log_keys.iter().map(|k| k.1).collect::<std::collections::BTreeSet<_>>().into_iter().collect();
                match ctx::choose("heights.kind", 4) {
                    0 => logs = all_logs.clone(),
                    1 => {
                        // The empty set of logs is part of C08's statement only.
                        if cfg.which != Which::C08 {
                            continue;
                        }
                        ctx::probe("get_log_heights_empty_slice");
                    }
                    2 => logs.push(*ctx::pick("heights.one", &all_logs)),
                    _ => {
                        for l in &all_logs {
                            if ctx::chance("heights.pick", 1, 2) {
                                logs.push(*l);
                            }
                        }
                        logs.push(777); // a log nobody has
                        if ctx::chance("heights.dup", 1, 3) && !logs.is_empty() {
                            logs.push(logs[0]);
                        }
                    }
                }
                let call = format!("{} {:?}", short_key(&author), logs);
                ev!("[{i}] get_log_heights({call})");
                let a = <SqliteStore as LogStore<Operation<SimExt>, VerifyingKey, LogIdT, SeqNum, Hash>>::get_log_heights(&real, &author, &logs).await;
                let b = <MemStore as LogStore<Operation<SimExt>, VerifyingKey, LogIdT, SeqNum, Hash>>::get_log_heights(&model, &author, &logs).await;
                ev!("      -> {}", res_str(&a));
                cmp(cfg, Which::C08, "get_log_heights", &call, a, b, |x| x);
            }
            14 | 15 | 16 => {
                if in_tx && !cfg.file_db {
                    continue;
                }
                let h = world.logs.iter().find(|l| (l.author, l.log_id) == k).map(|l| l.ops.len() as u32).unwrap_or(0);
                let sc = seq_choices(h.saturating_sub(1));
                let after = *ctx::pick("range.after", &sc);
                let until = *ctx::pick("range.until", &sc);
                let call = format!("{}:{} after={after:?} until={until:?}", short_key(&k.0), k.1);
                if c == 14 {
                    let a = <SqliteStore as LogStore<Operation<SimExt>, VerifyingKey, LogIdT, SeqNum, Hash>>::get_log_size(&real, &k.0, &k.1, after, until).await;
                    let b = <MemStore as LogStore<Operation<SimExt>, VerifyingKey, LogIdT, SeqNum, Hash>>::get_log_size(&model, &k.0, &k.1, after, until).await;
                    ev!("[{i}] get_log_size({call}) -> {}", res_str(&a));
                    // An empty range may be reported as None or as (0, 0).
                    cmp(cfg, Which::C08, "get_log_size", &call, a, b, |x| x.unwrap_or((0, 0)));
                } else {
                    let a = <SqliteStore as LogStore<Operation<SimExt>, VerifyingKey, LogIdT, SeqNum, Hash>>::get_log_entries(&real, &k.0, &k.1, after, until).await;
                    let b = <MemStore as LogStore<Operation<SimExt>, VerifyingKey, LogIdT, SeqNum, Hash>>::get_log_entries(&model, &k.0, &k.1, after, until).await;
                    ev!("[{i}] get_log_entries({call}) -> {}", a.as_ref().map(|v| v.as_ref().map(|v| v.iter().map(|(o, _)| o.header.seq_num).collect::<Vec<_>>())).map(|s| format!("{s:?}")).unwrap_or_else(|e| e.to_string()));
                    cmp(cfg, Which::C08, "get_log_entries", &call, a, b, |x| x.map(|v| v.into_iter().map(|(o, hb)| (o.hash, o.header.to_bytes(), hb, o.body.map(|b| b.to_bytes()))).collect::<Vec<_>>()));
                }
            }
            17 => {
                if in_tx {
                    continue;
                }
                let h = world.logs.iter().find(|l| (l.author, l.log_id) == k).map(|l| l.ops.len() as u32).unwrap_or(0);
                let until = ctx::choose("prune.until", h as usize + 2) as u32;
                let call = format!("{}:{} until={until}", short_key(&k.0), k.1);
                let a = <SqliteStore as LogStore<Operation<SimExt>, VerifyingKey, LogIdT, SeqNum, Hash>>::prune_entries(&real, &k.0, &k.1, &until).await;
                let b = <MemStore as LogStore<Operation<SimExt>, VerifyingKey, LogIdT, SeqNum, Hash>>::prune_entries(&model, &k.0, &k.1, &until).await;
                ev!("[{i}] prune_entries({call}) -> {}", res_str(&a));
                cmp(cfg, Which::C08, "prune_entries", &call, a, b, |x| x);
            }
            // ---- topic store ----
            18 => {
                let t = *ctx::pick("topic", &topics);
                let which = ctx::choose("topic.cmd", 3);
                let call = format!("{} {}:{}", short(&Hash::from(t)), short_key(&k.0), k.1);
                match which {
                    0 => {
                        let a = <SqliteStore as TopicStore<Topic, VerifyingKey, LogIdT>>::associate(&real, &t, &k.0, &k.1).await;
                        let b = <MemStore as TopicStore<Topic, VerifyingKey, LogIdT>>::associate(&model, &t, &k.0, &k.1).await;
                        ev!("[{i}] associate({call}){} -> {}", if in_tx { "" } else { " (no tx)" }, res_str(&a));
                        cmp(cfg, Which::C09, "associate", &call, a, b, |x| x);
                    }
                    1 => {
                        let a = <SqliteStore as TopicStore<Topic, VerifyingKey, LogIdT>>::remove(&real, &t, &k.0, &k.1).await;
                        let b = <MemStore as TopicStore<Topic, VerifyingKey, LogIdT>>::remove(&model, &t, &k.0, &k.1).await;
                        ev!("[{i}] remove({call}){} -> {}", if in_tx { "" } else { " (no tx)" }, res_str(&a));
                        cmp(cfg, Which::C09, "remove", &call, a, b, |x| x);
                    }
                    _ => {
                        if in_tx && !cfg.file_db {
                            continue;
                        }
                        let a = <SqliteStore as TopicStore<Topic, VerifyingKey, LogIdT>>::resolve(&real, &t).await;
                        let b = <MemStore as TopicStore<Topic, VerifyingKey, LogIdT>>::resolve(&model, &t).await;
                        ev!("[{i}] resolve({}) -> {}", short(&Hash::from(t)), a.as_ref().map(|m| m.values().map(|v| v.len()).sum::<usize>().to_string()).unwrap_or_else(|e| e.to_string()));
                        // A set of triples: order of data ids within an author is not specified.
                        cmp(cfg, Which::C09, "resolve", &call, a, b, |m: BTreeMap<VerifyingKey, Vec<LogIdT>>| m.into_iter().map(|(a, mut v)| { v.sort(); (a, v) }).collect::<Vec<_>>());
                    }
                }
            }
            // ---- cursor store ----
            _ => {
                let name = *ctx::pick("cursor.name", &["alpha", "beta"]);
                match ctx::choose("cursor.cmd", 3) {
                    0 => {
                        let mut state: BTreeMap<VerifyingKey, BTreeMap<LogIdT, SeqNum>> = BTreeMap::new();
                        for _ in 0..ctx::choose("cursor.entries", 4) {
                            let kk = *ctx::pick("cursor.log", &log_keys);
                            state.entry(kk.0).or_default().insert(kk.1, ctx::choose("cursor.h", 9) as u32);
                        }
                        let cur: Cursor<VerifyingKey, LogIdT> = Cursor::new(name, state);
                        let a = real.set_cursor(&cur).await;
                        let b = model.set_cursor(&cur).await;
                        ev!("[{i}] set_cursor({name}, {} authors){} -> {}", cur.state().len(), if in_tx { "" } else { " (no tx)" }, res_str(&a));
                        cmp(cfg, Which::C09, "set_cursor", name, a, b, |x| x);
                    }
                    1 => {
                        if in_tx && !cfg.file_db {
                            continue;
                        }
                        let a: Result<Option<Cursor<VerifyingKey, LogIdT>>, _> = real.get_cursor(name).await;
                        let b: Result<Option<Cursor<VerifyingKey, LogIdT>>, _> = model.get_cursor(name).await;
                        ev!("[{i}] get_cursor({name}) -> {}", a.as_ref().map(|c| c.is_some().to_string()).unwrap_or_else(|e| e.to_string()));
                        cmp(cfg, Which::C09, "get_cursor", name, a, b, |c| c.map(|c| (c.name().to_string(), c.state().clone())));
                    }
                    _ => {
                        let a = <SqliteStore as CursorStore<VerifyingKey, LogIdT>>::delete_cursor(&real, name).await;
                        let b = <MemStore as CursorStore<VerifyingKey, LogIdT>>::delete_cursor(&model, name).await;
                        ev!("[{i}] delete_cursor({name}){} -> {}", if in_tx { "" } else { " (no tx)" }, res_str(&a));
                        cmp(cfg, Which::C09, "delete_cursor", name, a, b, |x| x);
                    }
                }
            }
        }
        if ctx::has_violation() {
            break;
        }
        // Dirty restart: drop everything (an open transaction included) and reopen the file.
        if cfg.restarts && cfg.file_db && ctx::chance("restart", 1, 12) {
            let had_tx = open_tx.is_some();
            if let Some((pa, pb)) = open_tx.take() {
                drop(pa);
                drop(pb);
            }
            real.pool().close().await;
            drop(real);
            ctx::fault("dirty_restart");
            if had_tx {
                ctx::probe("restart_with_open_transaction");
            }
            ev!("[{i}] dirty restart (open transaction: {had_tx})");
            real = sqlite_file(path, 4).await;
            full_compare(cfg, &real, &model, &log_keys, &ops).await;
        }
    }
    if let Some((pa, pb)) = open_tx.take() {
        let _ = real.commit(pa).await;
        let _ = model.commit(pb).await;
    }
    if writes > 0 {
        ctx::mark_nontrivial();
    }
    if !ctx::has_violation() {
        full_compare(cfg, &real, &model, &log_keys, &ops).await;
    }
    real.pool().close().await;
}

async fn full_compare(cfg: &StoreCfg, real: &SqliteStore, model: &MemStore, log_keys: &[(VerifyingKey, LogIdT)], ops: &[Op]) {
    for k in log_keys {
        let a = <SqliteStore as LogStore<Operation<SimExt>, VerifyingKey, LogIdT, SeqNum, Hash>>::get_log_entries(real, &k.0, &k.1, None, None).await;
        let b = <MemStore as LogStore<Operation<SimExt>, VerifyingKey, LogIdT, SeqNum, Hash>>::get_log_entries(model, &k.0, &k.1, None, None).await;
        cmp(cfg, Which::C08, "get_log_entries", "full-compare", a, b, |x| x.map(|v| v.into_iter().map(|(o, hb)| (o.hash, hb, o.body.map(|b| b.to_bytes()))).collect::<Vec<_>>()));
    }
    for o in ops {
        let a = real.get_operation(&o.hash).await;
        let b = model.get_operation(&o.hash).await;
        cmp(cfg, Which::C09, "get_operation", "full-compare", a, b, |x| op_repr(&x));
    }
}
