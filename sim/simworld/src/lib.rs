//! Worlds, models and store seams shared by the p2panda simulation properties.

pub mod gated;
pub mod logworld;
pub mod memstore;
pub mod populate;
pub mod ordstore;
pub mod syncwire;
pub mod syncnet;
