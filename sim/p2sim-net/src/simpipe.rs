//! SimPipe: the byte stream under the codec (DESIGN.md §3.3). An in-memory, single-threaded
//! `AsyncWrite` / `AsyncRead` pair for the DES engine whose every operation asks the choice stream:
//!
//! * read / write chunk sizes (whole, fixed small, PRNG 1..=m) — `short_read` / `short_write`
//!   faults are counted whenever less than possible was transferred;
//! * `Pending` insertions (wake self, return `Pending`) on both sides — `pending_insert`;
//! * a bounded buffer (the writer really parks until the reader has consumed);
//! * EOF at byte k: the reader sees exactly the first k bytes of the stream and then end-of-file
//!   (`eof_at`); bytes written beyond k are swallowed.
//!
//! Dropping or shutting down the writer is a clean EOF after the buffered bytes; dropping the
//! reader makes further writes fail with `BrokenPipe` (so a bounded writer never hangs on a reader
//! that gave up). Value 0 of every draw is the plain behaviour (transfer everything, no Pending).

use std::cell::RefCell;
use std::collections::VecDeque;
use std::io;
use std::pin::Pin;
use std::rc::Rc;
use std::task::{Context, Poll, Waker};

use simcore::ctx;
use tokio::io::{AsyncRead, AsyncWrite, ReadBuf};

#[derive(Clone, Copy, Debug, PartialEq, Eq)]
pub enum Chunking {
    /// Transfer as much as possible.
    Whole,
    /// Always at most `m` bytes.
    Fixed(usize),
    /// PRNG-chosen 1..=m bytes (draw 0 = m).
    Random(usize),
}

impl Chunking {
    pub fn describe(&self) -> String {
        match self {
            Chunking::Whole => "whole".into(),
            Chunking::Fixed(m) => format!("fixed<={m}"),
            Chunking::Random(m) => format!("random 1..={m}"),
        }
    }
    fn pick(&self, label: &'static str, possible: usize) -> usize {
        match *self {
            Chunking::Whole => possible,
            Chunking::Fixed(m) => possible.min(m.max(1)),
            Chunking::Random(m) => {
                let cap = possible.min(m.max(1));
                cap - ctx::choose(label, cap)
            }
        }
    }
}

#[derive(Clone, Copy, Debug)]
pub struct PipeCfg {
    /// Buffer capacity in bytes (`usize::MAX` = unbounded).
    pub capacity: usize,
    pub read_chunk: Chunking,
    pub write_chunk: Chunking,
    /// `Pending` insertion on a poll with probability 1/den (0 = never).
    pub pending_den: usize,
    /// The reader sees only the first k bytes, then EOF.
    pub eof_at: Option<u64>,
}

impl PipeCfg {
    pub fn plain() -> Self {
        PipeCfg { capacity: usize::MAX, read_chunk: Chunking::Whole, write_chunk: Chunking::Whole, pending_den: 0, eof_at: None }
    }
}

#[derive(Clone, Debug, PartialEq, Eq)]
pub enum ReadEvent {
    /// `n` bytes delivered starting at stream offset `at`.
    Data { at: u64, n: usize },
    /// Harness-inserted `Pending` (woke itself).
    InsertedPending,
    /// Nothing buffered: the reader parked at stream offset `at` until the writer produced more.
    Parked { at: u64 },
    /// End of file reported at stream offset `at`.
    Eof { at: u64 },
}

#[derive(Default, Debug)]
pub struct PipeStats {
    pub reads: Vec<ReadEvent>,
    pub short_reads: u64,
    pub short_writes: u64,
    pub inserted_pendings: u64,
    pub writer_blocked: u64,
    pub eof_cut_fired: bool,
    pub bytes_written: u64,
    pub bytes_read: u64,
    pub swallowed: u64,
}

struct Shared {
    cfg: PipeCfg,
    buf: VecDeque<u8>,
    /// Bytes accepted from the writer so far (including swallowed ones).
    written: u64,
    /// Bytes handed to the reader so far.
    read: u64,
    writer_closed: bool,
    reader_gone: bool,
    read_waker: Option<Waker>,
    write_waker: Option<Waker>,
    stats: PipeStats,
}

pub struct PipeWriter(Rc<RefCell<Shared>>);
pub struct PipeReader(Rc<RefCell<Shared>>);
/// Read-only view for the oracle (ground truth at the seam).
#[derive(Clone)]
pub struct PipeProbe(Rc<RefCell<Shared>>);

pub fn pipe(cfg: PipeCfg) -> (PipeWriter, PipeReader, PipeProbe) {
    let s = Rc::new(RefCell::new(Shared {
        cfg,
        buf: VecDeque::new(),
        written: 0,
        read: 0,
        writer_closed: false,
        reader_gone: false,
        read_waker: None,
        write_waker: None,
        stats: PipeStats::default(),
    }));
    (PipeWriter(s.clone()), PipeReader(s.clone()), PipeProbe(s))
}

/// Writes raw bytes straight into the stream (after whatever the writer has already written),
/// bypassing the writer-side chunking: used to feed the decoder hand-built frames.
pub struct RawInjector(Rc<RefCell<Shared>>);

impl RawInjector {
    pub fn inject(&self, bytes: &[u8]) {
        let mut s = self.0.borrow_mut();
        for (i, b) in bytes.iter().enumerate() {
            let off = s.written + i as u64;
            match s.cfg.eof_at {
                Some(k) if off >= k => s.stats.swallowed += 1,
                _ => s.buf.push_back(*b),
            }
        }
        s.written += bytes.len() as u64;
        if let Some(w) = s.read_waker.take() {
            w.wake();
        }
    }
}

impl PipeWriter {
    pub fn injector(&self) -> RawInjector {
        RawInjector(self.0.clone())
    }
}

impl PipeProbe {
    pub fn with_stats<R>(&self, f: impl FnOnce(&PipeStats) -> R) -> R {
        let mut s = self.0.borrow_mut();
        s.stats.bytes_written = s.written;
        s.stats.bytes_read = s.read;
        f(&s.stats)
    }
    pub fn reader_gone(&self) -> bool {
        self.0.borrow().reader_gone
    }
}

fn insert_pending(s: &mut Shared, label: &'static str, cx: &mut Context<'_>) -> bool {
    if s.cfg.pending_den > 0 && ctx::chance(label, 1, s.cfg.pending_den) {
        s.stats.inserted_pendings += 1;
        ctx::fault("pending_insert");
        cx.waker().wake_by_ref();
        true
    } else {
        false
    }
}

impl AsyncWrite for PipeWriter {
    fn poll_write(self: Pin<&mut Self>, cx: &mut Context<'_>, data: &[u8]) -> Poll<io::Result<usize>> {
        let mut s = self.0.borrow_mut();
        if s.writer_closed {
            return Poll::Ready(Err(io::Error::new(io::ErrorKind::BrokenPipe, "simpipe: write after shutdown")));
        }
        if s.reader_gone {
            return Poll::Ready(Err(io::Error::new(io::ErrorKind::BrokenPipe, "simpipe: reader is gone")));
        }
        if data.is_empty() {
            return Poll::Ready(Ok(0));
        }
        if insert_pending(&mut s, "w.pending", cx) {
            return Poll::Pending;
        }
        let free = s.cfg.capacity.saturating_sub(s.buf.len());
        if free == 0 {
            s.stats.writer_blocked += 1;
            s.write_waker = Some(cx.waker().clone());
            return Poll::Pending;
        }
        let possible = data.len().min(free);
        let n = s.cfg.write_chunk.pick("w.chunk", possible);
        if n < data.len() && n < possible {
            s.stats.short_writes += 1;
            ctx::fault("short_write");
        }
        // Bytes beyond the EOF cut are accepted and swallowed (lost in flight).
        for (i, b) in data[..n].iter().enumerate() {
            let off = s.written + i as u64;
            match s.cfg.eof_at {
                Some(k) if off >= k => s.stats.swallowed += 1,
                _ => s.buf.push_back(*b),
            }
        }
        s.written += n as u64;
        if let Some(w) = s.read_waker.take() {
            w.wake();
        }
        Poll::Ready(Ok(n))
    }

    fn poll_flush(self: Pin<&mut Self>, _cx: &mut Context<'_>) -> Poll<io::Result<()>> {
        Poll::Ready(Ok(()))
    }

    fn poll_shutdown(self: Pin<&mut Self>, _cx: &mut Context<'_>) -> Poll<io::Result<()>> {
        let mut s = self.0.borrow_mut();
        s.writer_closed = true;
        if let Some(w) = s.read_waker.take() {
            w.wake();
        }
        Poll::Ready(Ok(()))
    }
}

impl Drop for PipeWriter {
    fn drop(&mut self) {
        let mut s = self.0.borrow_mut();
        s.writer_closed = true;
        if let Some(w) = s.read_waker.take() {
            w.wake();
        }
    }
}

impl AsyncRead for PipeReader {
    fn poll_read(self: Pin<&mut Self>, cx: &mut Context<'_>, rb: &mut ReadBuf<'_>) -> Poll<io::Result<()>> {
        let mut s = self.0.borrow_mut();
        if rb.remaining() == 0 {
            return Poll::Ready(Ok(()));
        }
        if insert_pending(&mut s, "r.pending", cx) {
            s.stats.reads.push(ReadEvent::InsertedPending);
            return Poll::Pending;
        }
        let at = s.read;
        if let Some(k) = s.cfg.eof_at {
            if at >= k {
                if !s.stats.eof_cut_fired {
                    s.stats.eof_cut_fired = true;
                    ctx::fault("eof_at");
                }
                s.stats.reads.push(ReadEvent::Eof { at });
                return Poll::Ready(Ok(()));
            }
        }
        if s.buf.is_empty() {
            if s.writer_closed {
                s.stats.reads.push(ReadEvent::Eof { at });
                return Poll::Ready(Ok(()));
            }
            s.stats.reads.push(ReadEvent::Parked { at });
            s.read_waker = Some(cx.waker().clone());
            return Poll::Pending;
        }
        let possible = s.buf.len().min(rb.remaining());
        let n = s.cfg.read_chunk.pick("r.chunk", possible);
        if n < possible {
            s.stats.short_reads += 1;
            ctx::fault("short_read");
        }
        for _ in 0..n {
            let b = s.buf.pop_front().expect("buffered byte");
            rb.put_slice(&[b]);
        }
        s.read += n as u64;
        s.stats.reads.push(ReadEvent::Data { at, n });
        if let Some(w) = s.write_waker.take() {
            w.wake();
        }
        Poll::Ready(Ok(()))
    }
}

impl Drop for PipeReader {
    fn drop(&mut self) {
        let mut s = self.0.borrow_mut();
        s.reader_gone = true;
        if let Some(w) = s.write_waker.take() {
            w.wake();
        }
    }
}
